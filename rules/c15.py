"""C15 -- The finalized circuit's connection data is complete, consistent and frozen."""
from __future__ import annotations

import ast

from sa.loader import recv, norm, norm1, walk_shallow, own_nodes, call_name, subscript_writes
from sa.rulekit import (nodes_where, node_calls, node_roots, nodes_calling, return_nodes, own,
                        nodes_writing_attr, must_pass, is_const, written_value, expr_is, kw,
                        call_sites)
from sa.report import path_witness
from rules.wiring import wiring_rules

CIRC = 'simulator:Circuit'

UNDECIDED = [
    "random wirings against an oracle (enumeration of connection specifications) -- not decided",
    "the wording of check_signature's messages and its name-suggestion logic -- not decided "
    "(decided: a message exists exactly for a shape mismatch, R15.7)",
]


def run(ck):
    ck.explanation = (
        "simulator.py / block.py / filters.py: the freeze flag _finalized is set only after both "
        "the connection pass (_finalize) and the name resolver have completed; the connection "
        "sets are written in pairs (shared with C01); every mutator of blocks, inputs and storage "
        "is dominated by check_not_finalized(); the '_not_NAME' inverter is created only when "
        "absent and under the same name that is looked up; every resolver registration names an "
        "attribute the registering code has just assigned; input_signature and get_conf use the "
        "same discriminator for single vs group inputs.")
    ck.undecided = UNDECIDED
    prog = ck.prog
    circ = prog.cls(CIRC)

    R1 = ck.rule('R15.1', "frozen only when complete: every `_finalized = True` is dominated by "
                 "the completed connection pass self._finalize() AND the completed name "
                 "resolution self._resolver.resolve()", 'M0', 1)
    R2 = ck.rule('R15.2', "connections: paired iconnections/oconnections, both input shapes, "
                 "second pass for inverters (shared with C01 R01.8)", 'M0', 6)
    R3 = ck.rule('R15.3', "mutators are gated: every write of _blocks[..], persistent_dict and "
                 "CBlock.inputs[..] outside _finalize is dominated by check_not_finalized(), which "
                 "raises on a finalized or shut-down circuit; duplicates / second connect() raise",
                 'M0', 8)
    R4 = ck.rule('R15.4', "one shared inverter: '_not_NAME' is created only if no block of that "
                 "name exists, under the looked-up name, connected to NAME; unknown names, foreign "
                 "blocks and plain values take the documented exits", 'M0', 5)
    R5 = ck.rule('R15.5', "resolver bookkeeping: register records or type-checks; resolve looks "
                 "up, type-checks, stores and clears; every resolve_name(obj, 'attr') names an "
                 "attribute the same code has just assigned on obj", 'M0', 7)
    R6 = ck.rule('R15.6', "two descriptions of one structure: input_signature and get_conf iterate "
                 "inputs.items() with the same tuple discriminator; connect stores groups as "
                 "tuples, unnamed inputs under '_' and refuses '_' as a name", 'M0', 5)

    R7 = ck.rule('R15.7', "a wrongly shaped input makes the start fail: valuediff_msg reports a "
                 "message exactly when the actual shape (single / group of n) contradicts the "
                 "expected one (None / n / (min, max)); check_signature raises on any message and "
                 "on differing names", 'ordering domain', 3)

    R8 = ck.rule('R15.8', "a plain constant is resolved to an object that holds exactly that constant: abstract "
                 "run of Const.__new__ / __init__ on pairs of constants that Python's equality and hashing "
                 "identify (1/True/1.0, 0/False/0.0, equal hashes), on equal and on unhashable values", 'M0', 2)
    with ck.section('R15.8'):
        from rules.shared import const_identity_run
        const_identity_run(ck, R8)
    R9 = ck.rule('R15.9', "references by name made after an explicit finalize() are still resolved at the start: "
                 "in run_forever every path to the first start() passes a resolve() that does not depend on the "
                 "circuit being not yet finalized (finalize() resolves only on its first call)", 'M0', 1)
    with ck.section('R15.9'):
        rf9 = prog.func('simulator:Circuit.run_forever')
        g9 = ck.cfg(rf9.fid, 'M0')
        from sa.rulekit import check_must_pass as _cmp9
        starts9 = [n for n in nodes_calling(g9, 'start') if any(recv(c) != 'self' for c in node_calls(n, 'start'))]
        ck.need(R9, starts9, "run_forever: the start() loop was not recognised")
        res9 = [n for n in nodes_calling(g9, 'resolve')
                if not any('_finalized' in t for t, _p in g9.guard_texts(n))]
        # a callee that resolves unconditionally counts as well (an extracted helper); finalize() does not:
        # its resolve() is guarded by `not self._finalized`
        circ9 = prog.cls('simulator:Circuit')
        for n in g9.nodes:
            if n.kind != 'stmt' or n.ast is None:
                continue
            for c in node_calls(n):
                if recv(c) == 'self' and call_name(c) in circ9.methods and call_name(c) != 'run_forever':
                    cal = circ9.methods[call_name(c)]
                    gc9 = ck.cfg(cal.fid, 'M0')
                    inner = [m_ for m_ in nodes_calling(gc9, 'resolve')
                             if not any('_finalized' in t for t, _p in gc9.guard_texts(m_))]
                    if inner and all(gc9.dominates(inner[0], x) for x in return_nodes(gc9)) and \
                            not any('_finalized' in t for t, _p in g9.guard_texts(n)):
                        res9.append(n)
        _cmp9(ck, R9, f"{rf9.fid} :: resolve before the first start()", rf9, g9, g9.entry, res9, starts9,
              "an unconditional `_resolver.resolve()` precedes the start of the blocks (names registered after "
              "an explicit finalize() would otherwise stay strings: Event.dest raises, unknown names are not "
              "reported)")
    with ck.section('R15.1'):
        # ------------------------------------------------------------------ R15.1
        n = 0
        for fi in prog.pkg_funcs(include_demo=True):
            g = None
            for x in own_nodes(fi.node):
                if isinstance(x, ast.Assign) and any(isinstance(t, ast.Attribute) and t.attr == '_finalized'
                                                     for t in x.targets) and is_const(x.value, True):
                    n += 1
                    g = g or ck.cfg(fi.fid, 'M0')
                    w = g.node_of(x)[0]
                    conn = [c for c in nodes_calling(g, '_finalize') if g.dominates(c, w)]
                    res = [c for c in nodes_calling(g, 'resolve')
                           if '_resolver' in recv(node_calls(c, 'resolve')[0]) and g.dominates(c, w)]
                    ok = bool(conn) and bool(res)
                    # resolving may CREATE blocks ('_not_NAME' inverters, '_ctrl'): it has to be
                    # complete before the connection pass starts, or those blocks stay unwired
                    order = ok and all(any(g.dominates(r, c) for r in res) for c in conn) and not any(
                        r.id in g.reachable_from(c) and w.id in g.reachable_from(r)
                        for c in conn for r in nodes_calling(g, 'resolve'))
                    ck.ob(R1, f"{fi.fid} :: names resolved before the connection pass", order,
                          "self._resolver.resolve() completes before self._finalize() starts: blocks "
                          "created while resolving names ('_not_NAME', '_ctrl') are wired by the pass"
                          if order else
                          "the name resolver runs (also) after the connection pass: an inverter "
                          "'_not_NAME' it creates for a filter is never connected (inputs stay names, "
                          "no iconnections/oconnections) in the frozen circuit", fi, x)
                    ck.ob(R1, f"{fi.fid} :: {norm1(x)}", ok,
                          "the flag is set after the connection pass and after the name resolution"
                          if ok else
                          ("the circuit is frozen without resolving registered names "
                           "(self._resolver.resolve() does not precede the flag): event destinations "
                           "and filter control blocks given by name stay strings in a finalized "
                           "circuit, and resolving them later cannot create '_ctrl' any more"
                           if conn else "the circuit is frozen before the connection pass completed"),
                          fi, x)
        ck.need(R1, n >= 1, "no `_finalized = True` site found")
        init = circ.methods['__init__']
        fin = circ.methods.get('finalize')
        own(ck, R1, '_finalized', {init.fid: 'False', fin.fid if fin else '?': 'freeze'})

    with ck.section('R15.2'):
        # ------------------------------------------------------------------ R15.2
        wiring_rules(ck, R2)

    with ck.section('R15.3'):
        # ------------------------------------------------------------------ R15.3
        cnf = circ.methods.get('check_not_finalized')
        ck.need(R3, cnf is not None, "Circuit.check_not_finalized not found")
        g = ck.cfg(cnf.fid, 'M0')
        r_fin = nodes_where(g, lambda n: isinstance(n.ast, ast.Raise) and g.has_guard(n, 'self._finalized', True),
                            kinds=('stmt',))
        r_err = nodes_where(g, lambda n: isinstance(n.ast, ast.Raise) and
                            (g.has_guard(n, 'self._error', True) or g.has_guard(n, 'self._error is None', False)),
                            kinds=('stmt',))
        ck.ob(R3, cnf.fid, bool(r_fin) and bool(r_err),
              "raises on a finalized circuit and on a circuit that was shut down"
              if r_fin and r_err else "check_not_finalized does not raise in both cases", cnf, cnf.node)

        def gated(fi, node, g):
            gates = [c for c in nodes_calling(g, 'check_not_finalized') if g.dominates(c, node)]
            return bool(gates)
        nsites = 0
        for fi in prog.pkg_funcs(include_demo=True):
            g = None
            for st in [x for x in own_nodes(fi.node) if isinstance(x, (ast.Assign, ast.AugAssign, ast.Delete))]:
                for tgt, kind, stmt in subscript_writes(st):
                    base = norm(tgt.value)
                    if base.endswith('._blocks'):
                        what = 'the block table'
                    elif base.endswith('.inputs') and fi.fid != 'simulator:Circuit._finalize':
                        what = 'CBlock.inputs'
                    else:
                        continue
                    nsites += 1
                    g = g or ck.cfg(fi.fid, 'M0')
                    node = g.node_of(stmt)[0]
                    ok = gated(fi, node, g)
                    ck.ob(R3, f"{fi.fid} :: {norm1(stmt)}", ok,
                          f"{what} is modified only after check_not_finalized()" if ok else
                          f"{what} can be modified in a finalized circuit (no check_not_finalized() "
                          f"dominates the write)", fi, stmt)
            for tgt_attr in ('persistent_dict',):
                for x in own_nodes(fi.node):
                    if isinstance(x, ast.Assign) and any(isinstance(t, ast.Attribute) and t.attr == tgt_attr
                                                         for t in x.targets) and fi.name != '__init__':
                        nsites += 1
                        g = g or ck.cfg(fi.fid, 'M0')
                        node = g.node_of(x)[0]
                        ok = gated(fi, node, g)
                        ck.ob(R3, f"{fi.fid} :: {norm1(x)}", ok,
                              "the storage is replaced only before finalisation" if ok else
                              "the persistent storage can be replaced in a finalized circuit", fi, x)
        ck.need(R3, nsites >= 3, "fewer gated mutators than confirmed by hand")
        own(ck, R3, '_blocks', {init.fid: 'empty table'})
        ab = circ.methods['addblock']
        g = ck.cfg(ab.fid, 'M0')
        ins = nodes_where(g, lambda n: any(norm(t.value) == 'self._blocks' for t, k, s in subscript_writes(n.ast))
                          if n.kind == 'stmt' else False)
        dup = nodes_where(g, lambda n: isinstance(n.ast, ast.Raise) and
                          g.has_guard(n, 'blk.name in self._blocks', True), kinds=('stmt',))
        ok = bool(ins) and bool(dup) and all(g.has_guard(i, 'blk.name in self._blocks', False) for i in ins) \
            and all(norm(i.ast.targets[0].slice) == 'blk.name' and norm(i.ast.value) == 'blk' for i in ins)
        ck.ob(R3, f"{ab.fid} :: duplicates refused", ok,
              "a duplicate name raises before the insertion under blk.name" if ok else
              "addblock can overwrite an existing block or registers it under another name", ab, ab.node)
        cn = prog.func('block:CBlock.connect')
        g = ck.cfg(cn.fid, 'M0')
        twice = nodes_where(g, lambda n: isinstance(n.ast, ast.Raise) and g.has_guard(n, 'self.inputs', True),
                            kinds=('stmt',))
        empty = nodes_where(g, lambda n: isinstance(n.ast, ast.Raise) and
                            g.has_guard(n, 'not args and not kwargs', True), kinds=('stmt',))
        ws = nodes_where(g, lambda n: n.kind == 'stmt' and any(norm(t.value) == 'self.inputs'
                                                              for t, k, s in subscript_writes(n.ast)))
        ok = bool(twice) and bool(empty) and all(g.has_guard(w, 'self.inputs', False) for w in ws)
        ck.ob(R3, f"{cn.fid} :: once, non-empty", ok,
              "a second connect() and an empty connect() raise" if ok else
              "connect() can be repeated or called without inputs", cn, cn.node)

    with ck.section('R15.4'):
        # ------------------------------------------------------------------ R15.4
        vb = circ.methods.get('_validate_blk')
        ck.need(R4, vb is not None, "Circuit._validate_blk not found")
        g = ck.cfg(vb.fid, 'M0')
        p = vb.node.args.args[1].arg
        inv = nodes_where(g, lambda n: any(norm(c.func) == 'cblocks.Not' for c in node_calls(n)))
        ck.need(R4, len(inv) == 1, "_validate_blk: inverter creation site not recognised")
        iv = inv[0]
        notc = [c for c in node_calls(iv) if norm(c.func) == 'cblocks.Not'][0]
        conn = [c for c in node_calls(iv, 'connect')]
        ret_ok = isinstance(iv.ast, ast.Return)
        if not conn and isinstance(iv.ast, ast.Assign) and len(iv.ast.targets) == 1 and \
                isinstance(iv.ast.targets[0], ast.Name):
            # `inv = Not(...)` followed by `return inv.connect(...)` / `inv.connect(...); return inv`
            nm_ = iv.ast.targets[0].id
            cn_ = nodes_where(g, lambda n: any(call_name(c) == 'connect' and recv(c) == nm_ for c in node_calls(n)))
            if len(cn_) == 1 and g.dominates(iv, cn_[0]):
                conn = [c for c in node_calls(cn_[0], 'connect')]
                rets_ = [r for r in return_nodes(g) if g.dominates(cn_[0], r) or r is cn_[0]]
                ret_ok = bool(rets_) and all(
                    r is cn_[0] or norm(r.ast.value) == nm_ for r in rets_)
        ok = g.has_guard(iv, f'{p} in self._blocks', False) and \
            g.has_guard(iv, f"{p}.startswith('_not_')", True) and \
            any('[5:6]' in t for t, pol in g.guard_texts(iv))
        ck.ob(R4, f"{vb.fid} :: inverter created only when absent", ok,
              "created under: name starts with '_not_' (not '_not__'), and no block of that name "
              "exists yet -- a second reference finds the first inverter" if ok else
              "the inverter can be created although a block of that name exists (duplicate-name "
              "error on the second reference), or for a name that is not a '_not_NAME' shortcut",
              vb, iv.ast)
        ok = [norm(a) for a in notc.args[:1]] == [p] and bool(conn) and \
            [norm(a) for a in conn[0].args] in ([f"{p}.removeprefix('_not_')"], [f"{p}[5:]"]) and \
            ret_ok and \
            any(k.arg == '_reserved' and is_const(k.value, True) for k in notc.keywords)
        ck.ob(R4, f"{vb.fid} :: inverter name and input", ok,
              "Not(<looked-up name>, _reserved=True).connect(<name without '_not_'>) is returned"
              if ok else "the inverter is registered under a different name or connected to the "
              "wrong block", vb, iv.ast)
        fb = nodes_where(g, lambda n: isinstance(n.ast, ast.Return) and
                         norm(n.ast.value) == f'self.findblock({p})' and
                         g.has_guard(n, f'isinstance({p}, str)', True), kinds=('stmt',))
        ck.ob(R4, f"{vb.fid} :: names looked up", bool(fb),
              "any other name is looked up with findblock() (KeyError for unknown names)" if fb else
              "names are not resolved through findblock()", vb, vb.node)
        foreign = nodes_where(g, lambda n: isinstance(n.ast, ast.Raise) and
                              g.has_guard(n, f'{p} in self.getblocks()', False), kinds=('stmt',))
        ck.ob(R4, f"{vb.fid} :: foreign blocks refused", bool(foreign),
              "a block object that is not in the current circuit raises" if foreign else
              "a block of another circuit is accepted", vb, vb.node)
        const = nodes_where(g, lambda n: isinstance(n.ast, ast.Return) and
                            norm(n.ast.value) == f'block.Const({p})' and
                            g.has_guard(n, f'isinstance({p}, block.Block)', False), kinds=('stmt',))
        ck.ob(R4, f"{vb.fid} :: constants wrapped", bool(const),
              "a plain value becomes a Const" if const else "plain values are not wrapped in Const",
              vb, vb.node)

    with ck.section('R15.5'):
        # ------------------------------------------------------------------ R15.5
        res = prog.cls('simulator:_BlockResolver')
        reg, rsv = res.methods.get('register'), res.methods.get('resolve')
        ck.need(R5, reg is not None and rsv is not None, "_BlockResolver.register/resolve not found")
        g = ck.cfg(reg.fid, 'M0')
        app = nodes_where(g, lambda n: any(call_name(c) == 'append' and '_unresolved' in recv(c)
                                           for c in node_calls(n)))
        chk = nodes_calling(g, '_check_type')
        ok = len(app) == 1 and len(chk) == 1 and g.has_guard(app[0], 'isinstance(blk, str)', True) and \
            g.has_guard(chk[0], 'isinstance(blk, str)', False)
        if ok:
            a = node_calls(app[0], 'append')[0].args[0]
            ok = isinstance(a, ast.Tuple) and [norm(e) for e in a.elts] == ['obj', 'attr', 'block_type']
        ck.ob(R5, reg.fid, ok, "a name is recorded as (obj, attr, type); an object is type-checked "
              "at once" if ok else "register() loses a by-name reference or skips the type check",
              reg, reg.node)
        g = ck.cfg(rsv.fid, 'M0')
        loop = [n for n in g.nodes if n.kind == 'for' and '_unresolved' in norm(n.ast.iter)]
        sets = nodes_calling(g, 'setattr')
        chk = nodes_calling(g, '_check_type')
        clr = nodes_where(g, lambda n: any(call_name(c) == 'clear' and '_unresolved' in recv(c)
                                           for c in node_calls(n)))
        ok = len(loop) == 1 and len(sets) == 1 and len(chk) == 1 and len(clr) == 1 and \
            g.dominates(chk[0], sets[0]) and g.dominates(loop[0], chk[0]) and \
            clr[0].id not in g.reachable_from(g.nodes[[v for v, l in g.succ[loop[0].id] if l == 'iter'][0]],
                                              avoid=[loop[0]])
        if ok:
            sa = node_calls(sets[0], 'setattr')[0]
            tgt = [norm(e) for e in loop[0].ast.target.elts] if isinstance(loop[0].ast.target, ast.Tuple) else []
            ok = len(tgt) == 3 and [norm(a) for a in sa.args[:2]] == tgt[:2]
            blkv = norm(sa.args[2])
            vals = ck.rdefs(rsv.fid, 'M0').value_exprs(sets[0], blkv)
            ok = ok and all(not isinstance(v, str) and norm(v) == f"self._resolve_function(getattr({tgt[0]}, {tgt[1]}))"
                            for v in vals) and bool(vals)
        ck.ob(R5, rsv.fid, ok, "for every record: look up the name, type-check, store; then clear"
              if ok else "resolve() does not replace every registered name by the block of that name",
              rsv, rsv.node)
        ci = circ.methods['__init__']
        gi = ck.cfg(ci.fid, 'M0')
        ok = any(isinstance(n.ast, ast.Assign) and norm(n.ast.targets[0]) == 'self._resolver' and
                 norm(n.ast.value) == '_BlockResolver(self._validate_blk)' for n in gi.nodes if n.kind == 'stmt') \
            and any(isinstance(n.ast, ast.Assign) and norm(n.ast.targets[0]) == 'self.resolve_name' and
                    norm(n.ast.value) == 'self._resolver.register' for n in gi.nodes if n.kind == 'stmt')
        ck.ob(R5, f"{ci.fid} :: resolver wiring", ok,
              "names are resolved with _validate_blk (creates '_ctrl' / inverters on demand); "
              "resolve_name is the resolver's register" if ok else
              "the resolver is not wired to _validate_blk / resolve_name", ci, ci.node)
        nreg = 0
        for fi, call in call_sites(ck, 'resolve_name', include_demo=True):
            nreg += 1
            g = ck.cfg(fi.fid, 'M0')
            node = g.node_of(call)[0]
            ok = len(call.args) >= 2 and isinstance(call.args[1], ast.Constant) and \
                isinstance(call.args[1].value, str)
            why = "unrecognised call shape"
            if ok:
                obj, attr = norm(call.args[0]), call.args[1].value
                assigned = nodes_where(g, lambda n: isinstance(n.ast, ast.Assign) and
                                       norm(n.ast.targets[0]) == f"{obj}.{attr}" and g.dominates(n, node))
                ns = nodes_where(g, lambda n: isinstance(n.ast, ast.Assign) and
                                 norm(n.ast.targets[0]) == obj and isinstance(n.ast.value, ast.Call)
                                 and norm(n.ast.value.func) == 'types.SimpleNamespace' and
                                 any(k.arg == attr for k in n.ast.value.keywords) and g.dominates(n, node))
                ok = bool(assigned) or bool(ns)
                why = (f"resolve_name({obj}, {attr!r}) follows the assignment of {obj}.{attr}" if ok else
                       f"resolve_name({obj}, {attr!r}) names an attribute that this code did not "
                       f"assign on {obj} (the resolver would read/patch the wrong attribute)")
            ck.ob(R5, f"{fi.fid} :: {norm1(call)}", ok, why, fi, call)
        ck.need(R5, nreg >= 4, "fewer resolve_name registrations than confirmed by hand")
        # type restrictions of the registrations that the property names
        ev = prog.func('block:Event.__init__')
        calls = [c for f, c in call_sites(ck, 'resolve_name') if f is ev]
        ok = bool(calls) and (len(calls[0].args) >= 3 and norm(calls[0].args[2]) == 'SBlock' or
                              any(k.arg == 'block_type' and norm(k.value) == 'SBlock' for k in calls[0].keywords))
        ck.ob(R5, f"{ev.fid} :: destination kind", ok,
              "an event destination must be an SBlock" if ok else
              "an event destination of the wrong kind is not refused", ev, calls[0] if calls else ev.node)

    with ck.section('R15.7'):
        # ------------------------------------------------------------------ R15.7
        _r15_7(ck, R7)

    with ck.section('R15.6'):
        # ------------------------------------------------------------------ R15.6
        isig = prog.func('block:CBlock.input_signature')
        gc = prog.func('block:CBlock.get_conf')

        def comp_info(fi):
            for x in own_nodes(fi.node):
                if isinstance(x, ast.DictComp):
                    gen = x.generators[0]
                    it = norm(gen.iter)
                    disc = None
                    if isinstance(x.value, ast.IfExp):
                        disc = norm(x.value.test)
                    return it, disc, x
            return None, None, None
        i1, d1, _ = comp_info(isig)
        i2, d2, x2 = comp_info(gc)
        ok = i1 == i2 == 'self.inputs.items()' and d1 is not None and d1 == d2 and 'tuple' in d1
        ck.ob(R6, "input_signature / get_conf", ok,
              f"both iterate self.inputs.items() and discriminate with `{d1}`" if ok else
              f"the two descriptions use different iterations/discriminators ({i1!r}/{d1!r} vs "
              f"{i2!r}/{d2!r})", isig, isig.node)
        g = ck.cfg(gc.fid, 'M0')
        w = nodes_where(g, lambda n: n.kind == 'stmt' and any(is_const(t.slice, 'inputs')
                                                             for t, k, s in subscript_writes(n.ast)))
        ok = len(w) == 1 and g.has_guard(w[0], 'self.circuit.is_finalized()', True)
        ck.ob(R6, f"{gc.fid} :: inputs only when finalized", ok,
              "the inputs are reported only for a finalized circuit (names are resolved then)" if ok
              else "get_conf reports inputs of an unfinalized circuit", gc, w[0].ast if w else gc.node)
        g = ck.cfg(cn.fid, 'M0')
        ws = nodes_where(g, lambda n: n.kind == 'stmt' and any(norm(t.value) == 'self.inputs'
                                                              for t, k, s in subscript_writes(n.ast)))
        unnamed = [w for w in ws if is_const(w.ast.targets[0].slice, '_')]
        named = [w for w in ws if w not in unnamed]
        ok = len(unnamed) == 1 and norm(unnamed[0].ast.value) == 'args' and len(named) == 1 and \
            isinstance(named[0].ast.value, ast.IfExp) and norm(named[0].ast.value.body) == 'tuple(inp)' \
            and norm(named[0].ast.value.test) == '_is_multiple(inp)' and norm(named[0].ast.value.orelse) == 'inp'
        ck.ob(R6, f"{cn.fid} :: stored shapes", ok,
              "unnamed inputs are stored as a tuple under '_', named groups as tuples, single inputs "
              "as they are" if ok else "connect() stores groups in a shape that input_signature / "
              "get_conf / _finalize do not recognise as a group", cn, cn.node)
        res_ = nodes_where(g, lambda n: isinstance(n.ast, ast.Raise) and g.has_guard(n, "'_' in kwargs", True),
                           kinds=('stmt',))
        ck.ob(R6, f"{cn.fid} :: reserved name", bool(res_),
              "the input name '_' is refused as a keyword" if res_ else
              "a named input '_' would silently replace the unnamed group", cn, cn.node)
        multi = nodes_where(g, lambda n: isinstance(n.ast, ast.Raise) and
                            g.has_guard(n, '_is_multiple(inp)', True), kinds=('stmt',))
        ck.ob(R6, f"{cn.fid} :: unnamed inputs are single", bool(multi),
              "a sequence among the unnamed inputs raises" if multi else
              "a nested sequence among the unnamed inputs is accepted", cn, cn.node)


def _r15_7(ck, R7):
    from sa.minieval import MiniEval, MSG
    prog = ck.prog
    cs = prog.func('block:CBlock.check_signature')
    vd = None
    for x in own_nodes(cs.node):
        pass
    for st in cs.node.body:
        if isinstance(st, ast.FunctionDef) and st.name == 'valuediff_msg':
            vd = st
    ck.need(R7, vd is not None and len(vd.args.args) == 3,
            "check_signature.<locals>.valuediff_msg(name, value, expected) not found")
    pn, pv, pe = [a.arg for a in vd.args.args]
    values = [None, 0, 1, 2, 3]
    expecteds = [None, 0, 1, 2, 3] + [(a, b) for a in (None, 0, 1, 2) for b in (None, 1, 2, 3)] + \
        [[1, 2]]

    def want(value, expected):
        if expected is None:
            return value is None
        if value is None:
            return False
        if isinstance(expected, int):
            return value == expected
        lo, hi = expected
        return (lo is None or value >= lo) and (hi is None or value <= hi)
    bad = []
    n = 0
    for v in values:
        for e in expecteds:
            n += 1
            ck.abstract_cases += 1
            out = MiniEval(R7, {pn: 'x', pv: v, pe: e}).run(vd.body)
            good = want(v, e)
            if out[0] != 'return' or (out[1] is None) != good:
                bad.append(f"value={v!r}, expected={e!r}: {out} (a message is "
                           f"{'not ' if good else ''}expected)")
    ck.ob(R7, f"{cs.fid}.<locals>.valuediff_msg :: message iff mismatch", not bad,
          f"evaluated on {n} (actual, expected) shape pairs: a message is returned exactly for a "
          f"mismatch" if not bad else "; ".join(bad[:4]), cs, vd)
    # an invalid expected item is an error of the caller, not a silent pass
    out = MiniEval(R7, {pn: 'x', pv: 1, pe: (1, 2, 3)}).run(vd.body)
    ck.ob(R7, f"{cs.fid}.<locals>.valuediff_msg :: malformed expectation raises", out[0] == 'raise',
          "a malformed (min, max) item raises" if out[0] == 'raise' else
          f"a malformed expected item gives {out}", cs, vd)
    # check_signature raises whenever a message exists / the names differ
    g = ck.cfg(cs.fid, 'M0')
    raises = nodes_where(g, lambda n_: isinstance(n_.ast, ast.Raise) and n_.kinds == {'N:ValueError'},
                         kinds=('stmt',))
    errs = nodes_where(g, lambda n_: isinstance(n_.ast, ast.Assign) and any(
        isinstance(c, ast.Call) and call_name(c) == 'valuediff_msg' for c in ast.walk(n_.ast.value)))
    ok = False
    why = "no assignment collects the messages of valuediff_msg"
    if len(errs) == 1:
        var = norm(errs[0].ast.targets[0])
        comp = errs[0].ast.value
        call = [c for c in ast.walk(comp) if isinstance(c, ast.Call) and call_name(c) == 'valuediff_msg'][0]
        args_ok = len(call.args) == 3 and isinstance(call.args[1], ast.Subscript) and \
            norm(call.args[1].slice) == norm(call.args[0])
        keep_ok = isinstance(comp, ast.ListComp) and all(
            [norm(c) for c in gen.ifs] in ([], ['msg is not None']) or
            all('is not None' in norm(c) for c in gen.ifs) for gen in comp.generators)
        r = [x for x in raises if g.has_guard(x, var, True) and g.dominates(errs[0], x)]
        ok = args_ok and keep_ok and bool(r)
        why = ("every non-None message is kept and a non-empty list raises ValueError" if ok else
               f"messages of valuediff_msg do not lead to `raise ValueError` (args_ok={args_ok}, "
               f"kept={keep_ok}, raise under `{var}`={bool(r)})")
    ck.ob(R7, f"{cs.fid} :: any message raises", ok, why, cs, errs[0].ast if errs else cs.node)
    names = [x for x in raises if any('.keys()' in t and p for t, p in g.guard_texts(x))]
    ck.ob(R7, f"{cs.fid} :: differing names raise", bool(names),
          "differing input names raise ValueError" if names else
          "differing input names do not raise", cs, cs.node)
