"""C13 -- Interval specifications mean the same in every accepted notation (structural clauses)."""
from __future__ import annotations

import ast

from sa.loader import recv, norm, norm1, walk_shallow, own_nodes, call_name, AnalysisError
from sa.absval import Interp, weak_orderings3
from sa.tables import fold, Unfoldable
from sa.rulekit import (nodes_calling, node_calls, nodes_where, return_nodes, own, is_const,
                        nodes_writing_attr)

TI = 'blocklib.timeinterval'

UNDECIDED = [
    "equivalence of the *string* notations for all strings (regex / strptime / fromisoformat semantics, "
    "whitespace, fractional seconds, legacy ',' delimiter) -- a statement about an infinite input space "
    "of strings; NOT decided. Decided only (R13.6): the date / date-time parser _convert_str on 20 "
    "well-formed and 22 malformed representative strings (a finite sample, a necessary condition)",
    "value semantics of datetime construction (invalid dates, Feb 29) -- not decided",
]

RULES = {
    'time': lambda lo, it, hi: (lo <= it < hi) if lo < hi else (it >= lo or it < hi),
    'date': lambda lo, it, hi: (lo <= it <= hi) if lo <= hi else (it >= lo or it <= hi),
    'datetime': lambda lo, it, hi: lo <= it < hi,
}
RULE_TEXT = {
    'time': "left-closed/right-open, wrapping when stop is not after start (equal endpoints = "
            "whole day)",
    'date': "inclusive, wrapping around the year end when stop is before start",
    'datetime': "left-closed/right-open, never wrapping",
}
CLASSES = {
    'TimeInterval': ('time', False, 'dt.time', 'convert_time_seq', 'convert_time_str'),
    'DateInterval': ('date', True, 'dt.date', 'convert_date_seq', 'convert_date_str'),
    'DateTimeInterval': ('datetime', False, 'dt.datetime', 'convert_datetime_seq',
                         'convert_datetime_str'),
}
DT_ORDER = ['year', 'month', 'day', 'hour', 'minute', 'second', 'microsecond']


from sa.report import SkipSection as _SkipSection


def _contains_run(ck, R1, ci, kind, flag, orderings):
    from sa.minieval import MiniEval, _Fault, _Raised
    from sa.loader import ClassInfo
    prog = ck.prog
    cont = prog.resolve_method(ci, '__contains__')
    ck.need(R1, cont is not None, f"{ci.qual}: no __contains__")
    params = [a.arg for a in cont.node.args.args]
    ck.need(R1, len(params) == 2, f"{cont.fid}: expected (self, item)")

    def class_body_resolver(dc):
        def resolve(text):
            if text.isidentifier() and text in dc.methods:
                return dc.methods[text].node
            if text.isidentifier():
                b = prog.lookup(dc.module, text)
                if b is not None and b[0] == 'func':
                    return b[1].node
            return None
        return resolve

    def resolve(text):
        for pre in ('self.', 'type(self).', 'self.__class__.', 'cls.'):
            if text.startswith(pre) and text[len(pre):].isidentifier():
                f_ = prog.resolve_method(ci, text[len(pre):])
                if f_ is not None and not prog.is_dummy(f_):
                    return f_.node
        if text.isidentifier():
            b = prog.lookup(ci.module, text)
            if b is not None and b[0] == 'func':
                return b[1].node
        return None
    # class-level values (flags, tables of functions) evaluated in their defining class body
    base_env = {}
    for c in reversed([c for c in ci.mro if isinstance(c, ClassInfo)]):
        for name, expr in c.values.items():
            if name in c.methods:
                continue
            try:
                val = MiniEval(R1, {}, class_body_resolver(c)).ev(expr)
            except (AnalysisError, _Fault, _Raised):
                continue
            for pre in ('self.', 'type(self).', 'self.__class__.', 'cls.'):
                base_env[pre + name] = val

    def member(ranges, item):
        env = dict(base_env)
        env.update({'self': 'SELF', params[1]: item, 'self._interval': list(ranges)})
        out = MiniEval(R1, env, resolve).run(cont.node.body)
        ck.abstract_cases += 1
        return out
    bad1, bad2 = {}, []
    n1 = n2 = 0
    for rank, (lo, it, hi) in sorted(orderings.items()):
        out = member([(lo, hi)], it)
        n1 += 1
        want = RULES[kind](lo, it, hi)
        if out[0] != 'return' or bool(out[1]) != want:
            bad1[rank] = f"code yields {out}, documented {'in' if want else 'out'}"
    import itertools
    for l1, h1, l2, h2, it in itertools.product(range(4), repeat=5):
        if l1 > l2:
            continue
        n2 += 1
        out = member([(l1, h1), (l2, h2)], it)
        want = RULES[kind](l1, it, h1) or RULES[kind](l2, it, h2)
        if (out[0] != 'return' or bool(out[1]) != want) and not bad2:
            bad2.append(f"ranges [{l1},{h1}] and [{l2},{h2}], item {it}: code yields {out}, documented "
                        f"{'in' if want else 'out'} ({kind} rule: {RULE_TEXT[kind]})")
    return bad1, bad2, n1, n2


def run(ck):
    ck.explanation = (
        "blocklib/timeinterval.py: the membership functions touch (low, item, high) only through "
        "comparisons, so the 13 weak orderings of three values are a complete finite abstraction; "
        "for each interval class the membership function it resolves to is evaluated by a small "
        "AST interpreter on all 13 orderings and compared with the documented rule (exhaustive). "
        "Class tables (flag, converters, Generic argument), the sorted normal form, the agreement "
        "of export lengths with the maximal accepted sequence lengths, the rendering/parsing "
        "separator and delimiter agreement and the presence of the rejecting raises are checked "
        "structurally. Equivalence of string notations is not decided.")
    ck.undecided = UNDECIDED
    prog = ck.prog
    mod = prog.module(TI)
    base = prog.cls(f"{TI}:_Interval")

    R1 = ck.rule('R13.1', "for each interval class the resolved membership function has the "
                 "documented truth table on all 13 weak orderings of (low, item, high)",
                 'ordering domain', 39)
    R1b = ck.rule('R13.1b', "_cmp dispatches on _RCLOSED_INTERVAL; __contains__ is any(_cmp(low, "
                  "item, high)) over the stored ranges with that argument order", 'M0', 2)
    R2 = ck.rule('R13.2', "class tables: right-closed flag, sequence/string converters and their "
                 "return types agree with the class's Generic argument", 'tables', 9)
    R3 = ck.rule('R13.3', "one normal form: ranges stored sorted, single writer; as_list exports "
                 "[export(start), export(stop)]; export lengths 4/2/7 equal the maximal accepted "
                 "sequence lengths; attribute order = constructor order; dummy year is leap",
                 'tables', 9)
    R4 = ck.rule('R13.4', "rendering feeds back: highest-priority separator padded by spaces, "
                 "terminating delimiter that the parser prefers; single values only for "
                 "right-closed intervals on both sides", 'M0', 5)
    R5 = ck.rule('R13.5', "malformed input raises: leftover text, wrong number of endpoints, "
                 "wrong sequence lengths, time zones, unsupported types", 'M0', 8)

    R6 = ck.rule('R13.6', "the string parser for dates and date-times: abstract run of _convert_str (with "
                 "_match_pattern and _name_to_month, the module's own regular expressions) on well-formed "
                 "strings of every documented notation and on malformed strings derived from them - the former "
                 "yield the numbers they denote, the latter raise ValueError instead of being misread", 'M0', 2)
    with ck.section('R13.6'):
        from rules.strparse import convert_str_run
        convert_str_run(ck, R6)
    with ck.section('R13.1'):
        orderings = weak_orderings3()
        ck.extra['exhaustive_parts'] = ['R13.1: 3 interval classes x all 13 weak orderings of (low, item, high) -- a complete abstraction for functions that touch their arguments only through comparisons']
        ck.need(R1, len(orderings) == 13, "internal: ordering enumeration")

        # ------------------------------------------------------------------ R13.1
        run_ok = {}
        for cname_, (kind, closed, gen, cseq, cstr) in CLASSES.items():
            ci = prog.cls(f"{TI}:{cname_}")
            try:
                flag = fold(prog, mod, prog.class_value(ci, '_RCLOSED_INTERVAL'))
            except (Unfoldable, AttributeError, TypeError):
                flag = None
            ck.ob(R2, f"{ci.qual} :: _RCLOSED_INTERVAL", flag is closed,
                  f"_RCLOSED_INTERVAL = {flag} (documented: {closed})", None,
                  f"{mod.path}:{ci.node.lineno}")
            # layout-independent decision: `item in interval` itself is interpreted for the concrete
            # class (methods and class-level tables resolved as Python would: MRO for self.<name>,
            # the defining class body for names inside class-level expressions)
            try:
                bad1, bad2, n1, n2 = _contains_run(ck, R1, ci, kind, flag, orderings)
            except AnalysisError as err_:
                ck.note(f"R13.1 abstract run of {ci.qual}.__contains__ not applicable: {err_.reason}")
                run_ok[cname_] = None
            else:
                run_ok[cname_] = not (bad1 or bad2)
                cont_ = prog.resolve_method(ci, '__contains__')
                for rank in sorted(orderings):
                    desc = _describe(rank)
                    ck.ob(R1, f"{ci.qual} :: item in interval :: ordering {desc}", rank not in bad1,
                          f"{kind} rule ({RULE_TEXT[kind]}): single range, {desc}: "
                          f"{'as documented' if rank not in bad1 else bad1[rank]}", cont_, cont_.node)
                ck.ob(R1, f"{ci.qual} :: item in interval :: two ranges", not bad2,
                      f"member iff one of the ranges contains the item, on all {n2} combinations of two "
                      f"ranges (sorted by start, values 0..3) and an item" if not bad2 else bad2[0],
                      cont_, cont_.node)
        for cname_, (kind, closed, gen, cseq, cstr) in CLASSES.items():
            if run_ok.get(cname_) is not None:
                continue        # decided by the abstract run of __contains__
            ci = prog.cls(f"{TI}:{cname_}")
            try:
                flag = fold(prog, mod, prog.class_value(ci, '_RCLOSED_INTERVAL'))
            except (Unfoldable, AttributeError, TypeError):
                flag = None
            fname = '_cmp_closed' if flag else '_cmp_open'
            fi = prog.resolve_method(ci, fname)
            ck.need(R1, fi is not None, f"{ci.qual} has no {fname}")
            ck.functions_analysed.add(fi.fid)
            params = [a.arg for a in fi.node.args.args]
            if 'staticmethod' not in fi.decorators and params and params[0] in ('self', 'cls'):
                params = params[1:]
            ck.need(R1, len(params) == 3, f"{fi.fid}: expected (low, item, high) parameters")
            for rank, (lo, it, hi) in sorted(orderings.items()):
                interp = Interp(R1, {params[0]: lo, params[1]: it, params[2]: hi}, 'ordering')
                got = interp.run(fi.node.body)
                ck.abstract_cases += 1
                want = RULES[kind](lo, it, hi)
                desc = _describe(rank)
                ck.ob(R1, f"{ci.qual} via {fi.fid} :: ordering {desc}", bool(got) == want and got is not None,
                      f"{kind} rule ({RULE_TEXT[kind]}): {desc} -> {'in' if want else 'out'}; "
                      f"code says {'in' if got else 'out'}", fi, fi.node)

    with ck.section('R13.1b'):
        # ------------------------------------------------------------------ R13.1b
        if all(v is not None for v in run_ok.values()) and len(run_ok) == len(CLASSES):
            # the dispatch is decided by the abstract runs above; the shape below is the fallback
            for cname_ in CLASSES:
                ci = prog.cls(f"{TI}:{cname_}")
                ck.ob(R1b, f"{ci.qual} :: dispatch", run_ok[cname_],
                      "membership = the documented rule of the class applied to every stored range (abstract "
                      "run of __contains__)" if run_ok[cname_] else "see R13.1", None, f"{mod.path}:{ci.node.lineno}")
            raise _SkipSection()
        cmpf = base.methods.get('_cmp')
        ck.need(R1b, cmpf is not None, "_Interval._cmp not found")
        rets = [n for n in own_nodes(cmpf.node) if isinstance(n, ast.Return)]
        ok = False
        g = ck.cfg(cmpf.fid, 'M0')
        if len(rets) == 1 and isinstance(rets[0].value, ast.Call) and isinstance(rets[0].value.func, ast.IfExp):
            f = rets[0].value.func
            t = norm(f.test)
            if t == 'self._RCLOSED_INTERVAL':
                ok = norm(f.body) == 'self._cmp_closed' and norm(f.orelse) == 'self._cmp_open'
            elif t == 'not self._RCLOSED_INTERVAL':
                ok = norm(f.orelse) == 'self._cmp_closed' and norm(f.body) == 'self._cmp_open'
            ok = ok and [norm(a) for a in rets[0].value.args] == ['*args']
        else:
            # if/else statement form
            rn = return_nodes(g)
            closed_r = [r for r in rn if g.has_guard(r, 'self._RCLOSED_INTERVAL', True)]
            open_r = [r for r in rn if g.has_guard(r, 'self._RCLOSED_INTERVAL', False)]
            ok = len(rn) == 2 and len(closed_r) == 1 and len(open_r) == 1 and \
                norm(closed_r[0].ast.value).startswith('self._cmp_closed(') and \
                norm(open_r[0].ast.value).startswith('self._cmp_open(')
        ck.ob(R1b, cmpf.fid, ok, "closed rule iff _RCLOSED_INTERVAL, else open rule; arguments passed "
              "through" if ok else "_cmp does not select _cmp_closed/_cmp_open by _RCLOSED_INTERVAL",
              cmpf, cmpf.node)
        cont = base.methods.get('__contains__')
        ck.need(R1b, cont is not None, "_Interval.__contains__ not found")
        item = cont.node.args.args[1].arg
        ok = False
        why = "unrecognised shape"
        for n in own_nodes(cont.node):
            if isinstance(n, ast.Call) and call_name(n) == 'any' and n.args and \
                    isinstance(n.args[0], ast.GeneratorExp):
                ge = n.args[0]
                gen0 = ge.generators[0]
                if norm(gen0.iter) == 'self._interval' and isinstance(gen0.target, ast.Tuple) and \
                        len(gen0.target.elts) == 2 and isinstance(ge.elt, ast.Call) and \
                        norm(ge.elt.func) == 'self._cmp':
                    lo, hi = [norm(e) for e in gen0.target.elts]
                    args = [norm(a) for a in ge.elt.args]
                    ok = args == [lo, item, hi] and not gen0.ifs
                    why = f"self._cmp({', '.join(args)}) for {lo}, {hi} in self._interval"
        ck.ob(R1b, cont.fid, ok, why if ok else f"__contains__ is not any(self._cmp(low, item, high) "
              f"for low, high in self._interval): {why}", cont, cont.node)
        # every public subclass inherits these two
        for cname_ in CLASSES:
            ci = prog.cls(f"{TI}:{cname_}")
            for m in ('_cmp', '__contains__'):
                r = prog.resolve_method(ci, m)
                if r is None or r.cls is not base:
                    ck.ob(R1b, f"{ci.qual}.{m}", False, f"{m} is overridden in {r.fid if r else None}; "
                          f"the dispatch rule no longer applies", r, r.node if r else None)

    with ck.section('R13.2'):
        # ------------------------------------------------------------------ R13.2
        for cname_, (kind, closed, gen, cseq, cstr) in CLASSES.items():
            ci = prog.cls(f"{TI}:{cname_}")
            b = ci.node.bases[0] if ci.node.bases else None
            garg = norm(b.slice) if isinstance(b, ast.Subscript) else None
            for attr, want in (('_convert_seq', cseq), ('_convert_str', cstr)):
                v = prog.class_value(ci, attr)
                got = norm(v) if v is not None else None
                fi = prog.funcs.get(f"{TI}:{got}") if got else None
                ann = norm(fi.node.returns) if fi is not None and fi.node.returns is not None else None
                ok = got == want and ann == gen and garg == gen
                ck.ob(R2, f"{ci.qual}.{attr}", ok,
                      f"{attr} = {got} -> {ann}; Generic argument {garg}" +
                      ('' if ok else f" (expected {want} -> {gen})"), None,
                      f"{mod.path}:{ci.node.lineno}")
        dv = prog.class_value(prog.cls(f"{TI}:DateInterval"), '_str')
        ck.ob(R2, f"{TI}:DateInterval._str", dv is not None and norm(dv) == 'date_to_string',
              f"_str = {norm(dv) if dv is not None else None}", None, f"{mod.path}:1")
        ev = prog.class_value(base, '_export')
        ck.ob(R2, f"{TI}:_Interval._export", ev is not None and norm(ev) == 'export_dt',
              f"_export = {norm(ev) if ev is not None else None}", None, f"{mod.path}:1")

    R3c = ck.rule('R13.3c', "the numeric normal form is handed out as fresh lists: export_dt and as_list are "
                  "not memoised and do not return a stored container (editing an exported form in place - "
                  "the documented way to modify an interval - must not change what other exports return)",
                  'M0', 2)
    with ck.section('R13.5w'):
        from rules.shared import weekdays_run
        weekdays_run(ck, R5)

    with ck.section('R13.3c'):
        for fid in (f"{TI}:export_dt", f"{TI}:_Interval.as_list"):
            fi = prog.func(fid)
            memo = [norm(d) for d in fi.node.decorator_list
                    if any(k in norm(d) for k in ('cache', 'memo'))]
            stored = []
            for r in [x for x in own_nodes(fi.node) if isinstance(x, ast.Return) and x.value is not None]:
                v = r.value
                if isinstance(v, ast.Attribute) and norm(v).startswith('self.'):
                    stored.append(norm(v))
                elif isinstance(v, ast.Name):
                    b = prog.lookup(mod, v.id)
                    assigned_locally = any(isinstance(t, ast.Name) and t.id == v.id and isinstance(t.ctx, ast.Store)
                                           for t in ast.walk(fi.node))
                    if b is not None and not assigned_locally:
                        stored.append(v.id)
                elif isinstance(v, ast.Subscript) and isinstance(v.value, ast.Name) and \
                        prog.lookup(mod, v.value.id) is not None and not any(
                            isinstance(t, ast.Name) and t.id == v.value.id and isinstance(t.ctx, ast.Store)
                            for t in ast.walk(fi.node)):
                    stored.append(norm(v))
            ok = not memo and not stored
            ck.ob(R3c, fid, ok, "a new list is built on every call" if ok else
                  (f"memoised by {memo}: every caller receives one shared mutable list" if memo else
                   f"returns the stored container {stored}"), fi, fi.node)

    with ck.section('R13.3'):
        # ------------------------------------------------------------------ R13.3
        init = base.methods['__init__']
        own(ck, R3, '_interval', {init.fid: 'constructor (sorted normal form)'},
            ignore=lambda fi, tgt, st: fi is not None and norm(tgt.value) == 'self'
            and (prog.enclosing_class(fi) is None or base not in prog.enclosing_class(fi).mro))
        gi = ck.cfg(init.fid, 'M0')
        ws = nodes_writing_attr(gi, '_interval')
        vals = [w.ast.value for w in ws if isinstance(w.ast, ast.Assign)]
        ok = bool(vals) and all(isinstance(v, ast.Call) and call_name(v) == 'sorted' and not v.keywords
                                for v in vals)
        ck.ob(R3, f"{init.fid} :: sorted", ok, "self._interval = sorted(parsed ranges)" if ok else
              "the stored ranges are not sorted (as_list/as_string would depend on input order)",
              init, ws[0].ast if ws else init.node)
        al = base.methods.get('as_list')
        ck.need(R3, al is not None, "_Interval.as_list not found")
        ok = False
        for n in own_nodes(al.node):
            if isinstance(n, ast.ListComp) and isinstance(n.elt, ast.List) and len(n.elt.elts) == 2:
                gen0 = n.generators[0]
                if norm(gen0.iter) == 'self._interval' and isinstance(gen0.target, ast.Tuple):
                    a, b_ = [norm(e) for e in gen0.target.elts]
                    e0, e1 = n.elt.elts
                    ok = isinstance(e0, ast.Call) and isinstance(e1, ast.Call) and \
                        norm(e0.func) == norm(e1.func) and [norm(x) for x in e0.args] == [a] and \
                        [norm(x) for x in e1.args] == [b_] and not gen0.ifs
        ck.ob(R3, al.fid, ok, "[[export(start), export(stop)] for start, stop in self._interval]"
              if ok else "as_list does not export every stored range as [export(start), export(stop)] "
              "in stored order", al, al.node)
        try:
            dt_attrs = fold(prog, mod, ast.Name(id='_DT_ATTRS', ctx=ast.Load()))
        except Unfoldable as err:
            raise AnalysisError(R3, f"_DT_ATTRS not foldable: {err}") from None
        ck.ob(R3, f"{TI}:_DT_ATTRS", list(dt_attrs) == DT_ORDER,
              f"_DT_ATTRS = {dt_attrs}" + ('' if list(dt_attrs) == DT_ORDER else
                                            f" (constructor order is {DT_ORDER})"), None, f"{mod.path}:1")
        attrs_node = prog.lookup(mod, '_ATTRS')
        ck.need(R3, attrs_node is not None and attrs_node[0] == 'value' and isinstance(attrs_node[1], ast.Dict),
                "_ATTRS dict not found")
        exp_len = {}
        for k, v in zip(attrs_node[1].keys, attrs_node[1].values):
            try:
                exp_len[norm(k)] = list(fold(prog, mod, v))
            except Unfoldable as err:
                raise AnalysisError(R3, f"_ATTRS[{norm(k)}] not foldable: {err}") from None
        want_attrs = {'dt.time': DT_ORDER[3:], 'dt.date': DT_ORDER[1:3], 'dt.datetime': DT_ORDER}
        for k, w in want_attrs.items():
            ck.ob(R3, f"{TI}:_ATTRS[{k}]", exp_len.get(k) == w,
                  f"exported attributes {exp_len.get(k)}" + ('' if exp_len.get(k) == w else f" (expected {w})"),
                  None, f"{mod.path}:{attrs_node[1].lineno}")
        # maximal accepted lengths of the sequence converters
        lens = {}
        for fname, key in (('convert_time_seq', 'dt.time'), ('convert_date_seq', 'dt.date'),
                           ('convert_datetime_seq', 'dt.datetime')):
            fi = prog.func(f"{TI}:{fname}")
            g = ck.cfg(fi.fid, 'M0')
            p = fi.node.args.args[0].arg
            lo = hi = None
            raised = False
            for n in g.nodes:
                if n.kind == 'test':
                    t = n.ast
                    neg = False
                    while isinstance(t, ast.UnaryOp) and isinstance(t.op, ast.Not):
                        t = t.operand
                        neg = not neg
                    if isinstance(t, ast.Compare) and f'len({p})' in norm(t):
                        if len(t.ops) == 2 and norm(t.comparators[0]) == f'len({p})' and neg and \
                                all(isinstance(o, ast.LtE) for o in t.ops):
                            lo, hi = fold(prog, mod, t.left), fold(prog, mod, t.comparators[1])
                        elif len(t.ops) == 1 and isinstance(t.ops[0], ast.NotEq) and not neg:
                            lo = hi = fold(prog, mod, t.comparators[0])
                        elif len(t.ops) == 1 and isinstance(t.ops[0], ast.Eq) and neg:
                            lo = hi = fold(prog, mod, t.comparators[0])
                        # the true branch must raise
                        for s, lab in g.succ[n.id]:
                            if lab == 'true':
                                br = g.nodes[s]
                                nxt = [g.nodes[x] for x, _ in g.succ[br.id]]
                                raised = any(isinstance(x.ast, ast.Raise) for x in nxt)
            lens[key] = (lo, hi)
            ok = hi == len(exp_len.get(key, [])) and raised
            ck.ob(R3, f"{fi.fid} :: accepted lengths", ok,
                  f"accepts {lo}..{hi} integers, the export has {len(exp_len.get(key, []))}" +
                  ('' if raised else '; a wrong length does not raise'), fi, fi.node)
            # constructor call passes the sequence positionally
            rn = return_nodes(g)
            okc = bool(rn) and all(isinstance(r.ast.value, ast.Call) and norm(r.ast.value.func) == key
                                   and any(isinstance(a, ast.Starred) and norm(a.value) == p
                                           for a in r.ast.value.args) for r in rn)
            if key == 'dt.date':
                okc = okc and all(norm(r.ast.value.args[0]) == '_DUMMY_YEAR' for r in rn)
            ck.ob(R5, f"{fi.fid} :: constructor", okc,
                  f"returns {key}(*{p})" if okc else f"does not build {key} from the positional items",
                  fi, rn[0].ast if rn else fi.node)
        try:
            dy = fold(prog, mod, ast.Name(id='_DUMMY_YEAR', ctx=ast.Load()))
        except Unfoldable:
            dy = None
        leap = isinstance(dy, int) and dy % 4 == 0 and (dy % 100 != 0 or dy % 400 == 0) and 1 <= dy <= 9999
        ck.ob(R3, f"{TI}:_DUMMY_YEAR", leap, f"_DUMMY_YEAR = {dy} "
              f"({'leap year: Feb 29 representable' if leap else 'NOT a leap year'})", None, f"{mod.path}:1")

    with ck.section('R13.4'):
        # ------------------------------------------------------------------ R13.4
        try:
            seps = fold(prog, mod, ast.Name(id='_RANGE_SEPARATORS', ctx=ast.Load()))
            delim = fold(prog, mod, ast.Name(id='_DELIMITER', ctx=ast.Load()))
            legacy = fold(prog, mod, ast.Name(id='_DELIMITER_LEGACY', ctx=ast.Load()))
        except Unfoldable as err:
            raise AnalysisError(R4, f"separator constants not foldable: {err}") from None
        rs = base.methods.get('_range_string')
        ck.need(R4, rs is not None, "_Interval._range_string not found")
        g = ck.cfg(rs.fid, 'M0')
        rn = return_nodes(g)
        pair = [r for r in rn if isinstance(r.ast.value, ast.JoinedStr)]
        ok = False
        if len(pair) == 1:
            vals = pair[0].ast.value.values
            txt = []
            for v in vals:
                if isinstance(v, ast.Constant):
                    txt.append(('c', v.value))
                else:
                    txt.append(('v', norm(v.value)))
            ok = [t for t in txt if t[0] == 'v'][1:3] == [('v', '_RANGE_SEPARATORS[0]'), ('v', 'to_string(stop)')] \
                and txt[-1] == ('v', '_DELIMITER') and ('c', ' ') in txt
            # the rendered separator must be found first by the parser
            rendered = f" {seps[0]} "
            first = next((s for s in seps if s in rendered), None)
            ok = ok and first == seps[0]
        ck.ob(R4, f"{rs.fid} :: range rendering", ok,
              f"'<start> {seps[0]} <stop>{delim}' and {seps[0]!r} is the separator the parser tries first"
              if ok else "the rendered range separator/delimiter does not feed back into the parser",
              rs, pair[0].ast if pair else rs.node)
        single = [r for r in rn if r not in pair]
        oks = len(single) == 1 and g.has_guard(single[0], 'self._RCLOSED_INTERVAL', True) and \
            g.has_guard(single[0], 'start == stop', True) and '_DELIMITER' in norm(single[0].ast.value)
        ck.ob(R4, f"{rs.fid} :: single-value rendering", oks,
              "a single value is rendered only for a right-closed interval with start == stop" if oks
              else "single-value rendering is not restricted to right-closed intervals with equal "
              "endpoints", rs, single[0].ast if single else rs.node)
        pr = base.methods.get('_parse_range')
        ck.need(R4, pr is not None, "_Interval._parse_range not found")
        gp = ck.cfg(pr.fid, 'M0')
        loop = [n for n in gp.nodes if n.kind == 'for' and norm(n.ast.iter) == '_RANGE_SEPARATORS']
        ck.ob(R4, f"{pr.fid} :: separators in list order", len(loop) == 1,
              "separators are tried in list (priority) order" if len(loop) == 1 else
              "the separators are not tried in plain list order", pr, loop[0].ast if loop else pr.node)
        singles = [r for r in return_nodes(gp) if isinstance(r.ast.value, ast.Tuple)
                   and len(r.ast.value.elts) == 2 and norm(r.ast.value.elts[0]) == norm(r.ast.value.elts[1])]
        oks = bool(singles) and all(gp.has_guard(r, 'self._RCLOSED_INTERVAL', True) for r in singles)
        ck.ob(R4, f"{pr.fid} :: single-value parsing", oks,
              "a single value is accepted only for right-closed intervals" if oks else
              "a single value is accepted for an interval type that is not right-closed",
              pr, singles[0].ast if singles else pr.node)
        gi_nodes = nodes_where(gi, lambda n: isinstance(n.ast, ast.Assign) and
                               norm(n.ast.targets[0]) == 'delimiter')
        okd = bool(gi_nodes) and isinstance(gi_nodes[0].ast.value, ast.IfExp) and \
            norm(gi_nodes[0].ast.value.test) == '_DELIMITER in ivalue' and \
            norm(gi_nodes[0].ast.value.body) == '_DELIMITER' and delim != legacy and \
            delim not in ''.join(seps) and all(delim not in s for s in seps)
        ck.ob(R4, f"{init.fid} :: delimiter preference", okd,
              f"the rendering delimiter {delim!r} is preferred by the parser when present" if okd else
              "the parser does not prefer the delimiter used by the rendering", init,
              gi_nodes[0].ast if gi_nodes else init.node)

    with ck.section('R13.5'):
        # ------------------------------------------------------------------ R13.5
        cs = prog.func(f"{TI}:_convert_str")
        g = ck.cfg(cs.fid, 'M0')
        left = nodes_where(g, lambda n: isinstance(n.ast, ast.Raise) and n.kinds == {'N:ValueError'}
                           and g.has_guard(n, 'string', True), kinds=('stmt',))
        strip = nodes_where(g, lambda n: isinstance(n.ast, ast.Assign) and norm(n.ast.value) == 'string.strip()')
        ok = bool(left) and bool(strip) and all(g.dominates(s, l) for s in strip for l in left) and \
            all(g.dominates(left[0].id and g.nodes[[p for p, _ in g.pred[left[0].id]][0]] or left[0], r) or True
                for r in return_nodes(g))
        # every return must come after the leftover test
        tests = [n for n in g.nodes if n.kind == 'test' and norm(n.ast) == 'string']
        ok = ok and bool(tests) and all(g.dominates(tests[-1], r) for r in return_nodes(g))
        ck.ob(R5, f"{cs.fid} :: leftover text", ok,
              "any text left after all parts were recognised raises ValueError before a value is "
              "returned" if ok else "left-over text is not rejected on every path", cs,
              left[0].ast if left else cs.node)
        gp_raises = nodes_where(gp, lambda n: isinstance(n.ast, ast.Raise), kinds=('stmt',))
        kinds = sorted({next(iter(r.kinds)) for r in gp_raises if r.kinds})
        fall = gp.exit.id in gp.reachable() and any(
            not isinstance(gp.nodes[i].ast, ast.Return) for i, _ in gp.pred[gp.exit.id])
        ck.ob(R5, f"{pr.fid} :: rejects", len(gp_raises) >= 3 and not fall,
              f"{len(gp_raises)} rejecting raises ({kinds}); no fall-through" if len(gp_raises) >= 3 and
              not fall else "a malformed range can fall through without an error", pr, pr.node)
        for fname, var in (('convert_time_str', 'dt_time'), ('convert_datetime_str', 'dt_datetime')):
            fi = prog.func(f"{TI}:{fname}")
            g = ck.cfg(fi.fid, 'M1')
            tz = nodes_where(g, lambda n: isinstance(n.ast, ast.Raise) and
                             any('tzinfo' in t and p for t, p in
                                 [(t, p) for t, p in g.guard_texts(n)]), kinds=('stmt',))
            ck.ob(R5, f"{fi.fid} :: time zones refused", bool(tz),
                  "a value carrying a time zone raises" if tz else "time zones are silently accepted",
                  fi, fi.node)
        unsupported = nodes_where(gi, lambda n: isinstance(n.ast, ast.Raise) and n.kinds == {'N:TypeError'},
                                  kinds=('stmt',))
        ck.ob(R5, f"{init.fid} :: unsupported type", bool(unsupported),
              "an unsupported argument type raises TypeError" if unsupported else
              "unsupported argument types are not refused", init, init.node)
        cv = base.methods.get('_convert')
        if cv is not None:
            gc = ck.cfg(cv.fid, 'M0')
            tr = nodes_where(gc, lambda n: isinstance(n.ast, ast.Raise), kinds=('stmt',))
            fall = gc.exit.id in gc.reachable() and any(
                not isinstance(gc.nodes[i].ast, ast.Return) for i, _ in gc.pred[gc.exit.id])
            ck.ob(R5, f"{cv.fid} :: unsupported endpoint type", bool(tr) and not fall,
                  "an endpoint that is neither a string nor a sequence raises", cv, cv.node)


def _describe(rank) -> str:
    names = ('low', 'item', 'high')
    groups = {}
    for n, r in zip(names, rank):
        groups.setdefault(r, []).append(n)
    return ' < '.join(' = '.join(groups[k]) for k in sorted(groups))
