"""C10 -- A circuit that cannot settle is stopped with an error (structural clauses)."""
from __future__ import annotations

import ast

from sa.loader import recv, norm, norm1, walk_shallow, own_nodes, call_name
from sa.tables import fold, Unfoldable
from sa.rulekit import (nodes_where, node_calls, node_roots, handlers_in, handler_reraises,
                        catches_broad, nodes_calling)
from sa.report import path_witness
from rules.simloop import SimLoop, SIMULATE

UNDECIDED = [
    "'an acyclic network in which a change reaches every block along only a few paths is never "
    "reported as unstable': depends on the ordering heuristic select_blk and on the numeric margin "
    "3 x blocks, i.e. on counting paths in arbitrary graphs -- no sound structural argument in "
    "reach; NOT decided",
    "'whenever the simulator goes idle the network is consistent' is decided under C01",
]


def run(ck):
    ck.explanation = (
        "Circuit._simulate (edzed/simulator.py): the evaluation counter is identified from the "
        "code (the local compared with the limit in the test that raises EdzedCircuitError); on "
        "every cycle of the main loop that reaches eval_block() the increment and the limit test "
        "are passed first; the counter is reset only behind the awaited queue.get(), which is "
        "reached only when work-list and queue are empty; the limit is a finite product of a "
        "positive module constant and the number of blocks, defined once before the loop; the "
        "loop contains no other await and no inner loop except the queue drain whose every "
        "iteration removes an item. Hence a burst performs at most limit+1 evaluations.")
    ck.undecided = UNDECIDED
    R1 = ck.rule('R10.1', "every evaluation is counted and checked first: on every cycle of the "
                 "main loop the increment and the raising limit test precede eval_block()", 'M0', 3)
    R2 = ck.rule('R10.2', "the counter restarts only at idle: every reset inside the loop is "
                 "dominated by the awaited queue.get(), itself reached only with empty work-list "
                 "and empty queue", 'M0', 2)
    R3 = ck.rule('R10.3', "the limit is finite and fixed: a product of a positive integer module "
                 "constant and len(self._blocks), defined once before the loop", 'M0', 2)
    R4 = ck.rule('R10.4', "no other wait inside a burst: the idle get() is the only await; the "
                 "only inner loop is the queue drain and each of its iterations removes an item",
                 'M0', 3)
    R5 = ck.rule('R10.5', "the instability error is an EdzedCircuitError and is not swallowed",
                 'M0', 2)

    R6 = ck.rule('R10.6', "idle => consistent (the part that is not C01's): a stored output change "
                 "is queued for the simulator before any event delivery can fail, so that no "
                 "change is lost when an on_output event raises a non-fatal error", 'M1', 1)
    R7 = ck.rule('R10.7', "idle => consistent: a block taken out of the work-list is evaluated in the "
                 "same iteration (a scheduled evaluation is never dropped), and every evaluation "
                 "follows a removal", 'M0', 2)

    R8 = ck.rule('R10.8', "the 'instability' EdzedCircuitError is what edzed.run() raises: the simulation task's "
                 "error is collected first and is not replaced by the error of a supporting coroutine that fails "
                 "while it is being stopped", 'M1', 4)
    with ck.section('R10.8'):
        from rules.c09 import run_reports_first_error
        run_reports_first_error(ck, R8)

    with ck.section('R10.6'):
        from rules.shared import enqueue_before_anything_can_fail
        enqueue_before_anything_can_fail(ck, R6)

    with ck.section('R10.7'):
        from rules.simloop import removed_implies_evaluated
        removed_implies_evaluated(ck, R7, SimLoop(ck, R7))

    with ck.section('R10.1'):

        sl = SimLoop(ck, R1)
        g, fi = sl.cfg, sl.fi
        # the raising limit test
        inst = nodes_where(g, lambda n: isinstance(n.ast, ast.Raise) and n.kinds == {'N:EdzedCircuitError'}
                           and n.id in sl.loop_nodes or
                           (isinstance(n.ast, ast.Raise) and n.kinds == {'N:EdzedCircuitError'}
                            and g.dominates(sl.head, n)), kinds=('stmt',))
        if not inst:
            ck.ob(R1, f"{SIMULATE} :: instability raise", False,
                  "no `raise EdzedCircuitError` inside the evaluation loop: a circuit that cannot "
                  "settle would occupy the event loop forever", fi, fi.node)
            return
        ck.need(R1, len(inst) == 1, f"_simulate: expected one instability raise, found {len(inst)}")
        inst = inst[0]
        # its guarding comparison
        test = None
        for d in sorted(g.dominators()[inst.id], reverse=True):
            dn = g.nodes[d]
            if dn.kind == 'branch' and isinstance(dn.test.ast, ast.Compare) and dn.id != inst.id:
                test = dn
                break
        ck.need(R1, test is not None, "_simulate: the limit comparison was not recognised")
        cmp_ = test.test.ast
        names = [x.id for x in walk_shallow(cmp_) if isinstance(x, ast.Name)]
        incs = nodes_where(g, lambda n: (isinstance(n.ast, ast.AugAssign) and isinstance(n.ast.op, ast.Add)
                                         and isinstance(n.ast.target, ast.Name) and n.ast.target.id in names)
                           or (isinstance(n.ast, ast.Assign) and isinstance(n.ast.targets[0], ast.Name)
                               and n.ast.targets[0].id in names and isinstance(n.ast.value, ast.BinOp)
                               and isinstance(n.ast.value.op, ast.Add)
                               and n.ast.targets[0].id in norm(n.ast.value)))
        ck.need(R1, incs, "_simulate: the counter increment was not recognised")
        counter = incs[0].ast.target.id if isinstance(incs[0].ast, ast.AugAssign) else incs[0].ast.targets[0].id
        limit_names = [n for n in names if n != counter]
        op = cmp_.ops[0]
        left_is_counter = norm(cmp_.left) == counter
        raising_when_over = (isinstance(op, (ast.Gt, ast.GtE)) and left_is_counter and test.polarity) or \
            (isinstance(op, (ast.Lt, ast.LtE)) and not left_is_counter and test.polarity) or \
            (isinstance(op, (ast.Lt, ast.LtE)) and left_is_counter and not test.polarity) or \
            (isinstance(op, (ast.Gt, ast.GtE)) and not left_is_counter and not test.polarity)
        ck.ob(R1, f"{SIMULATE} :: limit test", raising_when_over and len(cmp_.ops) == 1,
              f"`{norm(cmp_)}` raises when the counter exceeds the limit" if raising_when_over else
              f"`{norm(cmp_)}` does not raise for a counter above the limit", fi, test.test.ast)
        one = all((isinstance(i.ast, ast.AugAssign) and isinstance(i.ast.value, ast.Constant)
                   and i.ast.value.value == 1) or
                  (isinstance(i.ast, ast.Assign) and any(isinstance(x, ast.Constant) and x.value == 1
                                                         for x in walk_shallow(i.ast.value))) for i in incs)
        # every cycle eval -> eval passes the increment and the test
        p1 = None
        for e_ in sl.eval_nodes:
            p1 = p1 or g.path_avoiding(e_, sl.eval_nodes, avoid=incs, start_successors_only=True)
        ck.ob(R1, f"{SIMULATE} :: every evaluation counted", p1 is None and one,
              f"`{counter}` is incremented by 1 on every cycle that reaches eval_block()"
              if p1 is None and one else
              "a cycle of the loop reaches eval_block() again without counting it", fi, incs[0].ast,
              witness=path_witness(g, p1))
        p2 = g.path_avoiding(incs[0], sl.eval_nodes, avoid=[test.test], start_successors_only=True)
        p3 = g.path_avoiding(sl.head, sl.eval_nodes, avoid=[test.test])
        ck.ob(R1, f"{SIMULATE} :: checked before evaluating", p2 is None and p3 is None,
              "the limit test lies between the increment and eval_block() on every path"
              if p2 is None and p3 is None else
              "eval_block() can be reached without passing the limit test after the increment", fi,
              sl.eval.ast, witness=path_witness(g, p2 or p3))

    R9 = ck.rule('R10.9', "the evaluation order rests on complete wiring: select_blk reads iconnections, so every "
                 "connection (also of an inverter created on the fly) is entered in both directions - a block "
                 "missing its iconnections looks ready, is evaluated before its sources and re-evaluated after "
                 "each of them: the evaluation count of an acyclic network explodes", 'M0', 3)
    with ck.section('R10.9'):
        from rules.wiring import wiring_rules
        wiring_rules(ck, R9)
    with ck.section('R10.2'):
        # ------------------------------------------------------------------ R10.2
        resets = nodes_where(g, lambda n: isinstance(n.ast, ast.Assign) and
                             isinstance(n.ast.targets[0], ast.Name) and n.ast.targets[0].id == counter
                             and n.id in sl.loop_nodes and n not in incs)
        # local helper functions that write the counter through `nonlocal`: each call is a reset site
        helpers = {}
        for st_ in ast.walk(fi.node):
            if isinstance(st_, (ast.FunctionDef, ast.AsyncFunctionDef)) and st_ is not fi.node and any(
                    isinstance(x, ast.Nonlocal) and counter in x.names for x in ast.walk(st_)):
                w_ = [x for x in ast.walk(st_) if isinstance(x, (ast.Assign, ast.AugAssign)) and any(
                    isinstance(t, ast.Name) and t.id == counter
                    for t in (x.targets if isinstance(x, ast.Assign) else [x.target]))]
                if w_:
                    helpers[st_.name] = w_
        helper_calls = nodes_where(g, lambda n: n.id in sl.loop_nodes and any(
            isinstance(c.func, ast.Name) and c.func.id in helpers for c in node_calls(n)))
        idle = sl.idle_get()
        ck.need(R2, len(idle) == 1, f"_simulate: expected one awaited queue.get(), found {len(idle)}")
        okidle = sl.idle_facts(idle[0])
        ck.ob(R2, f"{SIMULATE} :: idle point", okidle,
              "the awaited get() is reached only with an empty work-list and an empty queue" if okidle
              else "the simulator waits although evaluations may be pending (or the idle test is "
              "incomplete)", fi, idle[0].ast)
        for r in resets:
            ok = g.dominates(idle[0], r) and isinstance(r.ast.value, ast.Constant)
            ck.ob(R2, f"{SIMULATE} :: {norm1(r.ast)}", ok,
                  "the counter restarts only after the idle wait" if ok else
                  "the counter is reset inside a burst: feedback through events would never be "
                  "detected", fi, r.ast)
        for r in helper_calls:
            hname = [c.func.id for c in node_calls(r) if isinstance(c.func, ast.Name) and c.func.id in helpers][0]
            ok = g.dominates(idle[0], r) and all(isinstance(w_, ast.Assign) and isinstance(w_.value, ast.Constant)
                                                 for w_ in helpers[hname])
            ck.ob(R2, f"{SIMULATE} :: {norm1(r.ast)} (writes {counter} through nonlocal)", ok,
                  "the helper that restarts the counter is called only after the idle wait" if ok else
                  f"`{hname}()` writes the evaluation counter and is called inside a burst: feedback "
                  f"through events would never be detected (the simulator spins forever)", fi, r.ast)
        ck.need(R2, resets or helper_calls, "_simulate: no counter reset inside the loop (unrecognised structure)")
        # ... and it does restart at every idle: no path from the wake-up to the next counted evaluation
        # avoids the reset (a settled circuit would otherwise be charged for the bursts before it)
        if incs:
            wake_succ = [g.nodes[v] for v, lab in g.succ[idle[0].id] if lab != 'exc']
            wit_ = None
            for a_ in wake_succ:
                if a_ in resets or a_ in helper_calls:
                    continue
                wit_ = wit_ or g.path_avoiding(a_, incs, avoid=list(resets) + list(helper_calls) + [idle[0]])
            ck.ob(R2, f"{SIMULATE} :: restart at every idle", wit_ is None,
                  "every path from the wake-up to the next counted evaluation restarts the counter" if wit_ is None
                  else "after an idle wait the next burst can be counted on top of the previous ones: an acyclic "
                  "network is reported as unstable after enough settled bursts", fi, idle[0].ast,
                  witness=path_witness(g, wit_))
        # other writers of the counter inside the loop
        others = nodes_where(g, lambda n: n.id in sl.loop_nodes and n not in incs and n not in resets
                             and counter in __import__('sa.dataflow', fromlist=['node_defs']).node_defs(n))
        ck.ob(R2, f"{SIMULATE} :: no other counter writes", not others,
              "the counter is only incremented and reset" if not others else
              f"the counter is also written by `{norm1(others[0].ast)}`", fi,
              others[0].ast if others else fi.node)

    with ck.section('R10.3'):
        # ------------------------------------------------------------------ R10.3
        prog = ck.prog
        mod = prog.module('simulator')
        ck.need(R3, len(limit_names) == 1, "the limit is not a single local variable")
        lim = limit_names[0]
        ldefs = [n for n in g.nodes if n.kind in ('stmt', 'for', 'with', 'test') and
                 lim in __import__('sa.dataflow', fromlist=['node_defs']).node_defs(n)]
        ok = len(ldefs) == 1 and ldefs[0].id not in sl.loop_nodes and g.dominates(ldefs[0], sl.head)
        ck.ob(R3, f"{SIMULATE} :: limit defined once", ok,
              f"`{lim}` has a single definition before the loop" if ok else
              f"`{lim}` is (re)defined inside the loop or more than once", fi,
              ldefs[0].ast if ldefs else fi.node)
        fin = False
        why = "unrecognised limit expression"
        if ldefs and isinstance(ldefs[0].ast, ast.Assign):
            v = ldefs[0].ast.value
            if isinstance(v, ast.BinOp) and isinstance(v.op, ast.Mult):
                sides = [v.left, v.right]
                # a factor may be an explaining local with a single definition before the loop
                rd10 = ck.rdefs(fi.fid, 'M0')
                for i_, s_ in enumerate(sides):
                    if isinstance(s_, ast.Name):
                        vals_ = rd10.value_exprs(ldefs[0], s_.id)
                        if len(vals_) == 1 and not isinstance(vals_[0], str):
                            sides[i_] = vals_[0]
                lens = [s for s in sides if isinstance(s, ast.Call) and call_name(s) == 'len'
                        and norm(s.args[0]) in ('self._blocks', 'self.getblocks()')]
                consts = [s for s in sides if s not in lens]
                if lens and consts:
                    try:
                        c = fold(prog, mod, consts[0])
                        fin = isinstance(c, int) and not isinstance(c, bool) and c >= 1
                        why = f"{lim} = {c} * len(self._blocks)"
                    except Unfoldable as err:
                        why = f"factor `{norm(consts[0])}` is not a foldable constant ({err})"
                else:
                    why = f"`{norm(v)}` is not <constant> * len(self._blocks)"
        ck.ob(R3, f"{SIMULATE} :: limit finite", fin, why, fi, ldefs[0].ast if ldefs else fi.node)

    with ck.section('R10.4'):
        # ------------------------------------------------------------------ R10.4
        ok = len(sl.await_nodes) == 1 and sl.await_nodes[0] is idle[0]
        ck.ob(R4, f"{SIMULATE} :: single await", ok,
              "the idle get() is the only await of the loop" if ok else
              f"additional await(s) inside a burst: "
              f"{[norm1(n.ast) for n in sl.await_nodes if n is not idle[0]]}", fi,
              sl.await_nodes[0].ast if sl.await_nodes else fi.node)
        inner = [n for n in g.nodes if n.id in sl.loop_nodes and n is not sl.head and
                 ((n.kind == 'test' and isinstance(n.stmt, ast.While)) or n.kind == 'for')]
        for lp in inner:
            body_start = [g.nodes[v] for v, lab in g.succ[lp.id] if lab in ('true', 'iter')]
            removing = nodes_where(g, lambda n: any(call_name(c) == 'get_nowait' and (isinstance(c.func, ast.Attribute) and sl.is_queue(c.func.value))
                                                    for c in node_calls(n)))
            p = g.path_avoiding(body_start[0], [lp], avoid=removing) if body_start else None
            test_ok = lp.kind == 'test' and any(f"{q}.empty()" in norm(lp.ast) for q in sl.queue_aliases)
            # ... or an evaluation loop: every cycle passes the counter increment and the limit test
            pc = g.path_avoiding(body_start[0], [lp], avoid=incs) if body_start else None
            pt = g.path_avoiding(body_start[0], [lp], avoid=[test.test]) if body_start else None
            counted = bool(body_start) and pc is None and pt is None
            if counted and not (p is None and test_ok):
                ck.ob(R4, f"{SIMULATE} :: inner loop `{norm1(lp.ast)}`", True,
                      "every cycle of this inner loop passes the counter increment and the limit test "
                      "(bounded by the instability limit)", fi, lp.ast)
                continue
            ck.ob(R4, f"{SIMULATE} :: inner loop `{norm1(lp.ast)}`", p is None and test_ok,
                  "the drain loop removes one queue item per iteration" if p is None and test_ok else
                  "an inner loop of the burst is not the item-removing queue drain (unbounded work "
                  "inside a burst)", fi, lp.ast, witness=path_witness(g, p))
        ck.need(R4, inner, "_simulate: queue drain loop not found")
        nested = [f for f in prog.funcs.values() if f.parent is fi]
        bad = [x for f in nested for x in own_nodes(f.node) if isinstance(x, (ast.While, ast.Await))]
        ck.ob(R4, f"{SIMULATE} :: helpers bounded", not bad,
              f"{len(nested)} nested helper(s) contain no while loop and no await" if not bad else
              "a nested helper contains a while loop or an await", fi, bad[0] if bad else fi.node)

    with ck.section('R10.5'):
        # ------------------------------------------------------------------ R10.5
        bad = [h for h in handlers_in(fi) if catches_broad(h) and not handler_reraises(fi, h)]
        # the raise must not be inside a try that catches it
        gm1 = ck.cfg(SIMULATE, 'M1')
        inst1 = [n for n in gm1.nodes if n.kind == 'stmt' and isinstance(n.ast, ast.Raise)
                 and n.kinds == {'N:EdzedCircuitError'}]
        direct = all(any(gm1.nodes[v].kind == 'raise' for v, _ in gm1.succ[n.id]) for n in inst1)
        ck.ob(R5, f"{SIMULATE} :: propagates", not bad and direct and bool(inst1),
              "the instability error leaves _simulate (and is recorded by run_forever, C09)"
              if not bad and direct else "the instability error can be caught inside _simulate",
              fi, inst.ast)
        msg = norm(inst.ast.exc)
        ck.ob(R5, f"{SIMULATE} :: error class", 'EdzedCircuitError' in msg,
              "raises EdzedCircuitError", fi, inst.ast)
