"""Recognition of the work-list loop of Circuit._simulate (shared by C01 and C10)."""
from __future__ import annotations

import ast

from sa.loader import recv, norm, norm1, walk_shallow, call_name, AnalysisError
from sa.rulekit import nodes_where, node_calls, node_roots
from sa.loader import norm1

SIMULATE = 'simulator:Circuit._simulate'


class SimLoop:
    """Slots of the rule templates filled from the code itself."""

    def __init__(self, ck, rule: str, model: str = 'M0'):
        self.ck = ck
        self.fi = ck.func(SIMULATE, rule)
        self.cfg = g = ck.cfg(SIMULATE, model)
        self.rd = ck.rdefs(SIMULATE, model)
        # --- evaluation site
        self.eval_nodes = nodes_where(g, lambda n: bool(node_calls(n, 'eval_block')))
        if not self.eval_nodes:
            raise AnalysisError(rule, "_simulate: no eval_block() site found")
        # one entry per evaluation site: (node, name of the evaluated block, name of the result)
        self.sites = []
        for en in self.eval_nodes:
            cs = node_calls(en, 'eval_block')
            if len(cs) != 1 or not isinstance(cs[0].func.value, ast.Name):
                raise AnalysisError(rule, "_simulate: eval_block() receiver is not a local variable")
            res = None
            if isinstance(en.ast, ast.Assign) and isinstance(en.ast.targets[0], ast.Name):
                res = en.ast.targets[0].id
            self.sites.append((en, cs[0].func.value.id, res))
        self.eval = self.eval_nodes[0]
        self.x = self.sites[0][1]                      # the block being evaluated (first site)
        self.result = self.sites[0][2]
        # --- work-list W: the local receiving `|= <y>.oconnections`
        self.union_nodes = nodes_where(g, lambda n: self._union_of(n) is not None)
        names = {self._union_of(n)[0] for n in self.union_nodes}
        if len(names) != 1:
            raise AnalysisError(rule, f"_simulate: work-list variable not identified ({names})")
        self.W = names.pop()
        # --- main loop head: the outermost loop test dominating the evaluation
        heads = [n for n in g.nodes if n.kind == 'test' and isinstance(n.stmt, ast.While)
                 and all(g.dominates(n, e) for e in self.eval_nodes)]
        if not heads:
            raise AnalysisError(rule, "_simulate: main loop not found")
        self.head = min(heads, key=lambda n: n.id)
        # nodes of the loop body = nodes on a cycle through the head
        from_head = g.reachable_from(self.head)
        self.loop_nodes = {i for i in from_head
                           if self.head.id in g.reachable_from(g.nodes[i])} | {self.head.id}
        # --- queue
        self.get_nodes = nodes_where(g, lambda n: any(call_name(c) in ('get', 'get_nowait')
                                                      and 'queue' in recv(c).lower()
                                                      for c in node_calls(n)))
        self.await_nodes = nodes_where(g, lambda n: any(isinstance(x, ast.Await) for r in node_roots(n)
                                                        for x in walk_shallow(r)))
        self.queue_aliases = {'self.sblock_queue'}
        for n in g.nodes:
            if n.kind == 'stmt' and isinstance(n.ast, ast.Assign) and \
                    norm(n.ast.value) == 'self.sblock_queue' and isinstance(n.ast.targets[0], ast.Name):
                self.queue_aliases.add(n.ast.targets[0].id)

    def _union_of(self, n):
        """(W, y) if node n adds <y>.oconnections to a local set W."""
        a = n.ast
        if n.kind != 'stmt':
            return None
        if isinstance(a, ast.AugAssign) and isinstance(a.op, ast.BitOr) and isinstance(a.target, ast.Name) \
                and isinstance(a.value, ast.Attribute) and a.value.attr == 'oconnections':
            return a.target.id, norm(a.value.value)
        if isinstance(a, ast.Expr) and isinstance(a.value, ast.Call) and call_name(a.value) == 'update' \
                and isinstance(a.value.func.value, ast.Name) and len(a.value.args) == 1 and \
                isinstance(a.value.args[0], ast.Attribute) and a.value.args[0].attr == 'oconnections':
            return a.value.func.value.id, norm(a.value.args[0].value)
        if isinstance(a, ast.Assign) and isinstance(a.targets[0], ast.Name) and \
                isinstance(a.value, ast.BinOp) and isinstance(a.value.op, ast.BitOr):
            t = a.targets[0].id
            sides = [a.value.left, a.value.right]
            if any(isinstance(s, ast.Name) and s.id == t for s in sides):
                o = [s for s in sides if isinstance(s, ast.Attribute) and s.attr == 'oconnections']
                if o:
                    return t, norm(o[0].value)
        return None

    def unions_for(self, var: str):
        return [n for n in self.union_nodes if self._union_of(n) == (self.W, var)]

    def is_queue(self, expr) -> bool:
        return norm(expr) in self.queue_aliases

    def idle_get(self):
        """The awaited queue.get() nodes."""
        res = []
        for n in self.await_nodes:
            for r in node_roots(n):
                for x in walk_shallow(r):
                    if isinstance(x, ast.Await) and isinstance(x.value, ast.Call) and \
                            call_name(x.value) == 'get' and isinstance(x.value.func, ast.Attribute) and self.is_queue(x.value.func.value):
                        res.append(n)
        return res

    def idle_facts(self, n) -> bool:
        g = self.cfg
        empty_w = g.has_guard(n, self.W, False) or g.has_guard(n, f"len({self.W}) == 0", True)
        empty_q = any(g.has_guard(n, f"{q}.empty()", True) for q in self.queue_aliases)
        return empty_w and empty_q


def removed_implies_evaluated(ck, R3, sl):
    """Every block taken out of the work-list reaches eval_block() in the same iteration, and every
    evaluation follows a removal (shared by C01 R01.3 and C10 R10.7: a scheduled evaluation that is
    dropped leaves the circuit idle in an inconsistent state)."""
    from sa.report import path_witness
    g, fi, W = sl.cfg, sl.fi, sl.W
    removals = nodes_where(g, lambda n: any(
        isinstance(c.func, ast.Attribute) and recv(c) == W and
        c.func.attr in ('pop', 'discard', 'remove') for c in node_calls(n)) or
        (isinstance(n.ast, ast.AugAssign) and isinstance(n.ast.op, ast.Sub)
         and norm(n.ast.target) == W))
    for r in removals:
        # the removed element must be the one evaluated afterwards
        c = [c for c in node_calls(r) if isinstance(c.func, ast.Attribute) and recv(c) == W]
        rv = None
        if c and c[0].func.attr == 'pop':
            if isinstance(r.ast, ast.Assign) and isinstance(r.ast.targets[0], ast.Name):
                rv = r.ast.targets[0].id
        elif c and len(c[0].args) == 1 and isinstance(c[0].args[0], ast.Name):
            rv = c[0].args[0].id
        evals_rv = [e for e, x_, _ in sl.sites if x_ == rv]
        p = g.path_avoiding(r, [sl.head, g.exit], avoid=evals_rv, start_successors_only=True)
        okr = p is None and bool(evals_rv)
        ck.ob(R3, f"{SIMULATE} :: {norm1(r.ast)}", okr,
              f"the removed block `{rv}` reaches eval_block() on every path" if okr
              else "a block can be removed from the work-list without being evaluated", fi, r.ast,
              witness=path_witness(g, p))
    ck.need(R3, removals, "_simulate: no removal from the work-list recognised")
    # evaluated => it was removed (otherwise the loop never terminates; also a consistency check)
    for e, x_, _ in sl.sites:
        rem_x = [r for r in removals if x_ in {nm.id for nm in ast.walk(r.ast) if isinstance(nm, ast.Name)}]
        p = g.path_avoiding(sl.head, [e], avoid=rem_x)
        ck.ob(R3, f"{SIMULATE} :: evaluated => removed" + ('' if len(sl.sites) == 1 else f" ({norm1(e.ast)})"),
              p is None, "every evaluation follows a removal in the same iteration" if p is None else
              "eval_block() is reached without removing the block from the work-list", fi, e.ast,
              witness=path_witness(g, p))
