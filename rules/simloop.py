"""Recognition of the work-list loop of Circuit._simulate (shared by C01 and C10)."""
from __future__ import annotations

import ast

from sa.loader import recv, norm, norm1, walk_shallow, call_name, AnalysisError
from sa.rulekit import nodes_where, node_calls, node_roots

SIMULATE = 'simulator:Circuit._simulate'


class SimLoop:
    """Slots of the rule templates filled from the code itself."""

    def __init__(self, ck, rule: str, model: str = 'M0'):
        self.ck = ck
        self.fi = ck.func(SIMULATE, rule)
        self.cfg = g = ck.cfg(SIMULATE, model)
        self.rd = ck.rdefs(SIMULATE, model)
        # --- evaluation site
        self.eval_nodes = nodes_where(g, lambda n: bool(node_calls(n, 'eval_block')))
        if len(self.eval_nodes) != 1:
            raise AnalysisError(rule, f"_simulate: expected exactly one eval_block() site, found "
                                f"{len(self.eval_nodes)}")
        self.eval = self.eval_nodes[0]
        c = node_calls(self.eval, 'eval_block')[0]
        if not isinstance(c.func.value, ast.Name):
            raise AnalysisError(rule, "_simulate: eval_block() receiver is not a local variable")
        self.x = c.func.value.id                       # the block being evaluated
        self.result = None
        if isinstance(self.eval.ast, ast.Assign) and isinstance(self.eval.ast.targets[0], ast.Name):
            self.result = self.eval.ast.targets[0].id
        # --- work-list W: the local receiving `|= <y>.oconnections`
        self.union_nodes = nodes_where(g, lambda n: self._union_of(n) is not None)
        names = {self._union_of(n)[0] for n in self.union_nodes}
        if len(names) != 1:
            raise AnalysisError(rule, f"_simulate: work-list variable not identified ({names})")
        self.W = names.pop()
        # --- main loop head: the outermost loop test dominating the evaluation
        heads = [n for n in g.nodes if n.kind == 'test' and isinstance(n.stmt, ast.While)
                 and g.dominates(n, self.eval)]
        if not heads:
            raise AnalysisError(rule, "_simulate: main loop not found")
        self.head = min(heads, key=lambda n: n.id)
        # nodes of the loop body = nodes on a cycle through the head
        from_head = g.reachable_from(self.head)
        self.loop_nodes = {i for i in from_head
                           if self.head.id in g.reachable_from(g.nodes[i])} | {self.head.id}
        # --- queue
        self.get_nodes = nodes_where(g, lambda n: any(call_name(c) in ('get', 'get_nowait')
                                                      and 'queue' in recv(c).lower()
                                                      for c in node_calls(n)))
        self.await_nodes = nodes_where(g, lambda n: any(isinstance(x, ast.Await) for r in node_roots(n)
                                                        for x in walk_shallow(r)))
        self.queue_aliases = {'self.sblock_queue'}
        for n in g.nodes:
            if n.kind == 'stmt' and isinstance(n.ast, ast.Assign) and \
                    norm(n.ast.value) == 'self.sblock_queue' and isinstance(n.ast.targets[0], ast.Name):
                self.queue_aliases.add(n.ast.targets[0].id)

    def _union_of(self, n):
        """(W, y) if node n adds <y>.oconnections to a local set W."""
        a = n.ast
        if n.kind != 'stmt':
            return None
        if isinstance(a, ast.AugAssign) and isinstance(a.op, ast.BitOr) and isinstance(a.target, ast.Name) \
                and isinstance(a.value, ast.Attribute) and a.value.attr == 'oconnections':
            return a.target.id, norm(a.value.value)
        if isinstance(a, ast.Expr) and isinstance(a.value, ast.Call) and call_name(a.value) == 'update' \
                and isinstance(a.value.func.value, ast.Name) and len(a.value.args) == 1 and \
                isinstance(a.value.args[0], ast.Attribute) and a.value.args[0].attr == 'oconnections':
            return a.value.func.value.id, norm(a.value.args[0].value)
        if isinstance(a, ast.Assign) and isinstance(a.targets[0], ast.Name) and \
                isinstance(a.value, ast.BinOp) and isinstance(a.value.op, ast.BitOr):
            t = a.targets[0].id
            sides = [a.value.left, a.value.right]
            if any(isinstance(s, ast.Name) and s.id == t for s in sides):
                o = [s for s in sides if isinstance(s, ast.Attribute) and s.attr == 'oconnections']
                if o:
                    return t, norm(o[0].value)
        return None

    def unions_for(self, var: str):
        return [n for n in self.union_nodes if self._union_of(n) == (self.W, var)]

    def is_queue(self, expr) -> bool:
        return norm(expr) in self.queue_aliases

    def idle_get(self):
        """The awaited queue.get() nodes."""
        res = []
        for n in self.await_nodes:
            for r in node_roots(n):
                for x in walk_shallow(r):
                    if isinstance(x, ast.Await) and isinstance(x.value, ast.Call) and \
                            call_name(x.value) == 'get' and isinstance(x.value.func, ast.Attribute) and self.is_queue(x.value.func.value):
                        res.append(n)
        return res

    def idle_facts(self, n) -> bool:
        g = self.cfg
        empty_w = g.has_guard(n, self.W, False) or g.has_guard(n, f"len({self.W}) == 0", True)
        empty_q = any(g.has_guard(n, f"{q}.empty()", True) for q in self.queue_aliases)
        return empty_w and empty_q
