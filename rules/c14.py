"""C14 -- External events enter only a running circuit and are always marked as external."""
from __future__ import annotations

import ast

from sa.loader import recv, norm, norm1, walk_shallow, call_name, subscript_writes, own_nodes, is_super_call
from sa.cfg import canon_fact
from sa.rulekit import (nodes_calling, node_calls, nodes_where, return_nodes, node_roots,
                        is_const, kw)
from sa.report import path_witness

EXT = 'block:ExtEvent'
PREFIX = '_ext_'

UNDECIDED = [
    "lifecycle phases as run-time states ('while shutting down', 'cleaning up') beyond the "
    "monotonicity of the error slot (C09) -- not decided",
    "arbitrary data shapes travelling through the handler -- not decided",
]


def _str_consts(node):
    return [x.value for x in walk_shallow(node) if isinstance(x, ast.Constant)
            and isinstance(x.value, str)]


def _is_startswith(e, lit=None):
    """`X.startswith('lit')` -> (X text, literal) or None."""
    if isinstance(e, ast.Call) and isinstance(e.func, ast.Attribute) and e.func.attr == 'startswith' \
            and len(e.args) == 1 and isinstance(e.args[0], ast.Constant) \
            and isinstance(e.args[0].value, str):
        if lit is None or e.args[0].value == lit:
            return recv(e), e.args[0].value
    return None


def _prefixed(e, facts, attr_ok) -> bool:
    """Prefix domain: is the value of `e` known to start with '_ext_' given facts
    {(subject text) known prefixed}?"""
    if isinstance(e, ast.Constant):
        return isinstance(e.value, str) and e.value.startswith(PREFIX)
    if isinstance(e, ast.BinOp) and isinstance(e.op, ast.Add):
        return _prefixed(e.left, facts, attr_ok)
    if isinstance(e, ast.JoinedStr):
        return bool(e.values) and isinstance(e.values[0], ast.Constant) and \
            str(e.values[0].value).startswith(PREFIX)
    if isinstance(e, ast.IfExp):
        sw = _is_startswith(e.test, PREFIX)
        if sw:
            return _prefixed(e.body, facts | {sw[0]}, attr_ok) and _prefixed(e.orelse, facts, attr_ok)
        if isinstance(e.test, ast.UnaryOp) and isinstance(e.test.op, ast.Not):
            sw = _is_startswith(e.test.operand, PREFIX)
            if sw:
                return _prefixed(e.orelse, facts | {sw[0]}, attr_ok) and \
                    _prefixed(e.body, facts, attr_ok)
        return _prefixed(e.body, facts, attr_ok) and _prefixed(e.orelse, facts, attr_ok)
    t = norm(e)
    if t in facts:
        return True
    if t == 'self._source':
        return attr_ok
    return False


def run(ck):
    ck.explanation = (
        "ExtEvent.send (edzed/block.py): the single delivery call is dominated by the is_ready() "
        "gate whose other branch raises EdzedInvalidState, nothing is written before the gate, "
        "the handler's value is returned; a two-point prefix domain {has '_ext_' prefix, unknown} "
        "is propagated through __init__ and send to show data['source'] carries the prefix on "
        "every path to the delivery; only the keys 'value' and 'source' are written; internal "
        "events overwrite 'source' with the sender's block name before any filter, and no "
        "reserved-name creation site in the package can produce a name beginning with '_ext_'.")
    ck.undecided = UNDECIDED
    prog = ck.prog
    ext = prog.cls(EXT)

    R1 = ck.rule('R14.1', "the only delivery site of ExtEvent.send is dominated by the is_ready() "
                 "gate (other branch raises EdzedInvalidState), no effect precedes the gate, the "
                 "handler's value is returned; is_ready() = task exists and error slot empty",
                 'M0', 5)
    R1b = ck.rule('R14.1b', "ExtEvent.__init__ resolves the destination at once and rejects "
                  "non-SBlock destinations, empty/non-string types, non-string sources", 'M0', 3)
    R2 = ck.rule('R14.2', "data['source'] has the '_ext_' prefix on every path to the delivery "
                 "(prefix domain); the literal is the same at all sites", 'M0', 3)
    R2b = ck.rule('R14.2b', "a positional value becomes data['value'] iff it is not UNDEF; no "
                  "other key is written or removed; etype and **data are delivered unchanged",
                  'M0', 3)
    R3 = ck.rule('R14.3', "internal events cannot carry the prefix: Event.send overwrites "
                 "data['source'] with the sender's name before any filter; names starting with "
                 "'_' need _reserved, and no _reserved creation site can yield an '_ext_' name",
                 'M0', 6)

    R4 = ck.rule('R14.4', "all data items arrive, whatever their names: every definition of event() in the package "
                 "takes the event type as a positional-only parameter and the data as **keywords (a data item "
                 "named like a parameter - 'etype', 'self' - would otherwise collide), and an override passes the "
                 "type positionally and the complete **data on", 'M0', 2)
    with ck.section('R14.4'):
        import ast as _ast
        n4 = 0
        for c4 in prog.pkg_classes():
            f4 = c4.methods.get('event')
            if f4 is None or c4.module.name == 'demo':
                continue
            a4 = f4.node.args
            n4 += 1
            ok4 = len(a4.posonlyargs) == 2 and not a4.args and not a4.kwonlyargs and a4.vararg is None \
                and a4.kwarg is not None
            ck.ob(R4, f"{f4.fid} :: signature", ok4,
                  f"event({', '.join(x.arg for x in a4.posonlyargs)}, /, **{a4.kwarg.arg if a4.kwarg else '?'})" if ok4
                  else "the event type is not positional-only (or the data are not collected by **keywords): an "
                  f"event with a data item named {[x.arg for x in a4.args + a4.kwonlyargs] or '...'} cannot be "
                  "delivered to blocks of this class (TypeError: multiple values)", f4, f4.node)
            if c4.qual != 'block:SBlock' and ok4:
                sup4 = [x for x in own_nodes(f4.node) if isinstance(x, _ast.Call) and is_super_call(x, 'event')]
                good4 = bool(sup4) and all(
                    len(x.args) == 1 and norm(x.args[0]) == a4.posonlyargs[1].arg and len(x.keywords) == 1 and
                    x.keywords[0].arg is None and norm(x.keywords[0].value) == a4.kwarg.arg for x in sup4)
                ck.ob(R4, f"{f4.fid} :: passes everything on", good4,
                      "super().event(etype, **data)" if good4 else
                      "the override does not hand the type and the complete data to the next event()", f4,
                      sup4[0] if sup4 else f4.node)
        ck.need(R4, n4 >= 2, f"only {n4} definitions of event() found (2 confirmed by hand)")
    with ck.section('R14.1c'):
        from rules.shared import simtask_implies_error_recorded
        simtask_implies_error_recorded(ck, R1)
        # "returns the handler's result": also through the add-on wrappers of event() that sit between
        # ExtEvent.send and the handler (persistent blocks)
        from rules.shared import event_result_passed_on
        event_result_passed_on(ck, R1, 'fsm:FSM')
        # "after any kind of stop ... raises EdzedInvalidState": every stop goes through abort(), which fills
        # the error slot at once; a bare cancel() of the simulation task leaves is_ready() True until the
        # task has run (a forced reset, then a send() on a kept ExtEvent in the same synchronous stretch)
        sites_ = []
        for fi_ in prog.pkg_funcs():
            for x_ in own_nodes(fi_.node):
                if isinstance(x_, ast.Call) and call_name(x_) == 'cancel' and (
                        '_simtask' in recv(x_) or 'simtask' in recv(x_).lower()) and \
                        not fi_.fid.endswith('Circuit.abort'):
                    sites_.append((fi_, x_))
        ck.ob(R1, "who stops the simulation task", not sites_,
              "the simulation task is cancelled by Circuit.abort() only (which records the error first)"
              if not sites_ else
              f"{sites_[0][0].fid} cancels the simulation task without recording an error: the circuit "
              "answers is_ready() == True until the task has processed the cancellation", sites_[0][0] if sites_
              else None, sites_[0][1] if sites_ else 'edzed/simulator.py:1')

    with ck.section('R14.1'):
        # ------------------------------------------------------------------ R14.1
        send = ext.methods.get('send')
        ck.need(R1, send is not None, "ExtEvent.send not found")
        cfg = ck.cfg(send.fid, 'M0')
        deliveries = nodes_calling(cfg, 'event')
        ck.ob(R1, f"{send.fid} :: single delivery site", len(deliveries) == 1,
              f"{len(deliveries)} call(s) of <dest>.event in ExtEvent.send (exactly one expected)",
              send, send.node)
        ck.need(R1, deliveries, "no delivery site in ExtEvent.send")

        def ready_fact(facts, pol):
            for e, p in facts:
                t, cp = canon_fact(e, p)
                if t.endswith('.is_ready()') and cp == pol:
                    return True
            return False
        gate_tests = nodes_where(cfg, lambda n: n.kind == 'test' and 'is_ready()' in norm(n.ast))
        for d in deliveries:
            ok = ready_fact(cfg.guards(d), True)
            ck.ob(R1, f"{send.fid} :: {norm1(d.ast)} :: gate", ok,
                  "delivery happens only under is_ready() == True" if ok else
                  "the delivery call is not dominated by the true outcome of <circuit>.is_ready()",
                  send, d.ast)
        raises = nodes_where(cfg, lambda n: isinstance(n.ast, ast.Raise)
                             and n.kinds == {'N:EdzedInvalidState'} and ready_fact(cfg.guards(n), False),
                             kinds=('stmt',))
        ck.ob(R1, f"{send.fid} :: not-ready branch raises", bool(raises),
              "the not-ready branch raises EdzedInvalidState" if raises else
              "no `raise EdzedInvalidState` under is_ready() == False", send, send.node)
        # the gate is the circuit's: get_circuit().is_ready() or self._dest.circuit.is_ready()
        for g in gate_tests:
            rcv = [recv(c) for c in node_calls(g, 'is_ready')]
            # ... and it is the circuit of the destination: the *current* circuit (get_circuit()) is another
            # one after reset_circuit(), and a kept ExtEvent would enter the finished circuit as soon as the
            # new one runs (defect F18)
            ok = all(r in ('self._dest.circuit', 'self.dest.circuit') for r in rcv) and bool(rcv)
            ck.ob(R1, f"{send.fid} :: gate receiver", ok,
                  f"is_ready() is asked of {rcv}" + ('' if ok else
                  ": not the destination's circuit - after reset_circuit() an ExtEvent object kept by the "
                  "application delivers into the finished circuit whenever the new circuit is running"), send, g.ast)
        # no effect before the gate
        effectful = nodes_where(cfg, lambda n: n.kind == 'stmt' and (
            any(True for _ in subscript_writes(n.ast)) or
            any(call_name(c) not in ('get_circuit', 'is_ready', 'isinstance') for c in node_calls(n))
            ) and not isinstance(n.ast, ast.Raise) and not isinstance(n.ast, ast.Expr)
            or (n.kind == 'stmt' and isinstance(n.ast, ast.Expr) and
                not isinstance(n.ast.value, ast.Constant)))
        bad = [n for n in effectful if gate_tests and not any(cfg.dominates(g, n) for g in gate_tests)]
        ck.ob(R1, f"{send.fid} :: nothing before the gate", bool(gate_tests) and not bad,
              "every effectful statement is dominated by the gate test" if gate_tests and not bad else
              f"statement(s) run before the is_ready() gate: {[norm1(n.ast) for n in bad]}",
              send, bad[0].ast if bad else send.node)
        rets = return_nodes(cfg)
        dcall = node_calls(deliveries[0], 'event')[0]
        ok = bool(rets) and all(r.ast.value is not None and (
            any(x is dcall for x in walk_shallow(r.ast.value)) and isinstance(r.ast.value, ast.Call)
            and call_name(r.ast.value) == 'event') for r in rets)
        if not ok and rets:
            rd = ck.rdefs(send.fid, 'M0')
            ok = all(isinstance(r.ast.value, ast.Name) and
                     all(d is deliveries[0] for d in rd.defs_at(r, r.ast.value.id))
                     and rd.defs_at(r, r.ast.value.id) for r in rets)
        ck.ob(R1, f"{send.fid} :: returns the handler's value", ok,
              "send() returns the value of the delivery call" if ok else
              f"send() does not return the delivery call's value (returns "
              f"{[norm(r.ast.value) for r in rets]})", send, rets[0].ast if rets else send.node)

        isr = prog.resolve_method(prog.cls('simulator:Circuit'), 'is_ready')
        ck.need(R1, isr is not None, "Circuit.is_ready not found")
        g2 = ck.cfg(isr.fid, 'M0')
        rets2 = return_nodes(g2)
        want = {canon_fact(ast.parse('self._simtask is not None', mode='eval').body, True),
                canon_fact(ast.parse('self._error is None', mode='eval').body, True)}
        got = set()
        shape_ok = len(rets2) == 1 and isinstance(rets2[0].ast.value, ast.BoolOp) and \
            isinstance(rets2[0].ast.value.op, ast.And)
        if shape_ok:
            got = {canon_fact(v, True) for v in rets2[0].ast.value.values}
        ck.ob(R1, f"{isr.fid} :: conjunction", shape_ok and got == want,
              "is_ready() == (_simtask is not None and _error is None)" if shape_ok and got == want
              else f"is_ready() returns `{norm(rets2[0].ast.value) if rets2 else None}`; expected the "
              f"conjunction of 'simulation task exists' and 'error slot empty'", isr, isr.node)

        # "while the circuit is shutting down it raises": shutdown() makes is_ready() false at once,
        # i.e. it records the stop in the error slot (through abort()) before its first await; merely
        # requesting the cancellation of the simulation task leaves a window in which the gate is open
        sh = prog.func('simulator:Circuit.shutdown')
        gsh = ck.cfg(sh.fid, 'M0')
        awaits = nodes_where(gsh, lambda n: any(isinstance(x, ast.Await) and '_simtask' in norm(x.value)
                                                for x in walk_shallow(n.ast)))
        aborts = nodes_where(gsh, lambda n: any(call_name(c) == 'abort' and recv(c) == 'self' for c in node_calls(n)))
        ab = prog.func('simulator:Circuit.abort')
        gab = ck.cfg(ab.fid, 'M0')
        ew = [w for w in nodes_where(gab, lambda n: n.kind == 'stmt' and isinstance(n.ast, ast.Assign) and
                                     any(norm(t) == 'self._error' for t in n.ast.targets))]
        cn = nodes_where(gab, lambda n: any(call_name(c) == 'cancel' for c in node_calls(n)))
        ok = bool(awaits) and bool(aborts) and all(any(gsh.dominates(a, w) for a in aborts) for w in awaits) \
            and bool(ew) and all(any(gab.dominates(e_, c_) for e_ in ew) for c_ in cn)
        ck.ob(R1, f"{sh.fid} :: the stop is recorded before shutdown() first waits", ok,
              "self.abort(...) (which writes the error slot before it cancels) dominates the await of "
              "the simulation task: is_ready() is false from the moment shutdown is requested" if ok else
              "shutdown() waits for the simulation task without having recorded the stop in the error "
              "slot: until the cancellation is delivered is_ready() stays true and ExtEvent.send() "
              "delivers into a circuit that is shutting down", sh, awaits[0].ast if awaits else sh.node)

    with ck.section('R14.1b'):
        # ------------------------------------------------------------------ R14.1b
        init = ext.methods.get('__init__')
        ck.need(R1b, init is not None, "ExtEvent.__init__ not found")
        gi = ck.cfg(init.fid, 'M0')
        iraises = nodes_where(gi, lambda n: isinstance(n.ast, ast.Raise), kinds=('stmt',))

        def raise_under(text, pol):
            return any(gi.has_guard(r, text, pol) for r in iraises)
        dest_w = nodes_where(gi, lambda n: isinstance(n.ast, ast.Assign) and
                             any(norm(t) == 'self._dest' for t in n.ast.targets))
        ck.need(R1b, dest_w, "ExtEvent.__init__ does not store self._dest")
        dvar = norm(dest_w[0].ast.value)
        ok = raise_under(f'isinstance({dvar}, SBlock)', False) and \
            gi.has_guard(dest_w[0], f'isinstance({dvar}, SBlock)', True)
        ck.ob(R1b, f"{init.fid} :: destination kind", ok,
              "a destination that is not an SBlock is refused before it is stored" if ok else
              f"self._dest = {dvar} is not dominated by the SBlock type check", init, dest_w[0].ast)
        finds = nodes_calling(gi, 'findblock')
        ck.ob(R1b, f"{init.fid} :: name resolved at once", bool(finds),
              "a destination given by name is resolved with findblock() in the constructor"
              if finds else "no immediate findblock() resolution", init, init.node)
        ok = raise_under('isinstance(source, str)', False) and \
            (raise_under('isinstance(etype, str)', False) or raise_under('not isinstance(etype, str) or not etype', True))
        ck.ob(R1b, f"{init.fid} :: etype/source type checks", ok,
              "non-string event types and sources are refused" if ok else
              "missing type check of etype or source", init, init.node)

    with ck.section('R14.2'):
        # ------------------------------------------------------------------ R14.2
        src_w = nodes_where(gi, lambda n: isinstance(n.ast, ast.Assign) and
                            any(norm(t) == 'self._source' for t in n.ast.targets))
        ck.need(R2, src_w, "ExtEvent.__init__ does not store self._source")
        attr_ok = True
        for w in src_w:
            facts = set()
            for e, p in gi.guards(w):
                sw = _is_startswith(e, PREFIX)
                if sw and p:
                    facts.add(sw[0])
            okw = _prefixed(w.ast.value, facts, False)
            attr_ok = attr_ok and okw
            ck.ob(R2, f"{init.fid} :: {norm1(w.ast)}", okw,
                  "the stored default source always has the prefix" if okw else
                  f"`{norm(w.ast.value)}` is not guaranteed to begin with '{PREFIX}'", init, w.ast)
        # every other writer of _source
        for fi in prog.pkg_funcs():
            if fi is init:
                continue
            for n in own_nodes(fi.node):
                if isinstance(n, ast.Assign) and any(isinstance(t, ast.Attribute) and t.attr == '_source'
                                                     and fi.cls is ext for t in n.targets):
                    attr_ok = False
                    ck.ob(R2, f"{fi.fid} :: {norm1(n)}", False,
                          "self._source of an ExtEvent is rewritten outside the constructor", fi, n)

        # forward dataflow over send(): state of data['source'] in {P, U}
        rd = ck.rdefs(send.fid, 'M0')
        reach = cfg.reachable()
        state_out = {}

        def transfer(n, st):
            # branch nodes: startswith test on an alias of data['source']
            if n.kind == 'branch':
                t = n.test.ast
                pol = n.polarity
                while isinstance(t, ast.UnaryOp) and isinstance(t.op, ast.Not):
                    t = t.operand
                    pol = not pol
                sw = _is_startswith(t, PREFIX)
                if sw and pol:
                    subj = sw[0]
                    if subj == "data['source']":
                        return 'P'
                    vals = rd.value_exprs(n.test, subj) if subj.isidentifier() else []
                    if vals and all(not isinstance(v, str) and norm(v) == "data['source']" for v in vals):
                        return 'P'
                return st
            if n.kind != 'stmt' or n.ast is None:
                return st
            a = n.ast
            for tgt, kind, stmt in subscript_writes(a):
                if norm(tgt.value) == 'data':
                    if is_const(tgt.slice, 'source'):
                        if kind == 'assign' and isinstance(stmt, ast.Assign):
                            facts = set()
                            for e, p in cfg.guards(n):
                                sw = _is_startswith(e, PREFIX)
                                if sw and p:
                                    facts.add(sw[0])
                            return 'P' if _prefixed(stmt.value, facts, attr_ok) else 'U'
                        return 'U'
                    if not isinstance(tgt.slice, ast.Constant):
                        return 'U'      # computed key may be 'source'
            if isinstance(a, ast.Assign) and any(isinstance(t, ast.Name) and t.id == 'data'
                                                 for t in a.targets):
                return 'U'
            for c in node_calls(n):
                if isinstance(c.func, ast.Attribute) and recv(c) == 'data' and \
                        c.func.attr in ('update', 'pop', 'clear', 'setdefault', 'popitem', '__setitem__'):
                    return 'U'
            return st

        order = sorted(reach)
        state_in = {i: None for i in order}
        state_in[cfg.entry.id] = 'U'
        changed = True
        while changed:
            changed = False
            for i in order:
                preds = [state_out.get(p) for p, _ in cfg.pred[i] if p in reach]
                preds = [p for p in preds if p is not None]
                if i == cfg.entry.id:
                    cur = 'U'
                elif not preds:
                    continue
                else:
                    cur = 'P' if all(p == 'P' for p in preds) else 'U'
                out = transfer(cfg.nodes[i], cur)
                if state_in[i] != cur or state_out.get(i) != out:
                    state_in[i] = cur
                    state_out[i] = out
                    changed = True
        for d in deliveries:
            st = state_in.get(d.id)
            wit = None
            if st != 'P':
                # witness: a path to the delivery along U states
                wit = cfg.path_avoiding(cfg.entry, [d],
                                        avoid=[cfg.nodes[i] for i in order if state_out.get(i) == 'P'
                                               and i != d.id])
            ck.ob(R2, f"{send.fid} :: prefix at delivery", st == 'P',
                  "data['source'] begins with '_ext_' on every path reaching the delivery"
                  if st == 'P' else
                  "a path reaches the delivery with a data['source'] that is not known to carry the "
                  "'_ext_' prefix", send, d.ast, witness=path_witness(cfg, wit))
        lits = []
        for fi in (init, send):
            for x in own_nodes(fi.node):
                if isinstance(x, ast.Constant) and isinstance(x.value, str) and x.value.startswith('_ext') \
                        and len(x.value) <= 8:
                    lits.append(x.value)
            for dflt in fi.node.args.defaults + fi.node.args.kw_defaults:
                pass
        ok = len(lits) >= 4 and set(lits) == {PREFIX}
        ck.ob(R2, f"{EXT} :: prefix literal", ok,
              f"{len(lits)} occurrences, all equal to '{PREFIX}'" if ok else
              f"prefix literals differ or are missing: {sorted(set(lits))} ({len(lits)} occurrences)",
              send, send.node)

    with ck.section('R14.2b'):
        # ------------------------------------------------------------------ R14.2b
        keys_ok = True
        bad_keys = []
        val_w = []
        for n in nodes_where(cfg, lambda n: n.kind == 'stmt'):
            for tgt, kind, stmt in subscript_writes(n.ast):
                if norm(tgt.value) == 'data':
                    if kind != 'assign' or not isinstance(tgt.slice, ast.Constant) or \
                            tgt.slice.value not in ('value', 'source'):
                        keys_ok = False
                        bad_keys.append(norm1(stmt))
                    elif tgt.slice.value == 'value':
                        val_w.append(n)
            for c in node_calls(n):
                if isinstance(c.func, ast.Attribute) and recv(c) == 'data' and \
                        c.func.attr in ('update', 'pop', 'clear', 'setdefault', 'popitem'):
                    keys_ok = False
                    bad_keys.append(norm1(n.ast))
        ck.ob(R2b, f"{send.fid} :: keys written", keys_ok,
              "only data['value'] and data['source'] are written; nothing is removed" if keys_ok else
              f"other data items are modified: {bad_keys}", send, send.node)
        okv = len(val_w) == 1 and isinstance(val_w[0].ast, ast.Assign) and \
            norm(val_w[0].ast.value) == 'value' and cfg.has_guard(val_w[0], 'value is UNDEF', False)
        if okv:
            # and on every path with value not UNDEF the write happens: the only guards are that test
            others = [g for g in cfg.guard_texts(val_w[0]) if 'UNDEF' not in g[0] and 'is_ready' not in g[0]]
            okv = not others and all(cfg.dominates(val_w[0], d) or
                                     cfg.path_avoiding(cfg.entry, [d], avoid=val_w) is not None
                                     for d in deliveries)
            skip = cfg.path_avoiding(cfg.entry, deliveries, avoid=val_w)
            if skip is not None:
                okv = okv and any(n.kind == 'branch' and 'UNDEF' in norm(n.test.ast) for n in skip)
        ck.ob(R2b, f"{send.fid} :: positional value", okv,
              "data['value'] = value exactly when value is not UNDEF" if okv else
              "the positional value is not stored as data['value'] exactly under `value is not UNDEF`",
              send, val_w[0].ast if val_w else send.node)
        okd = len(dcall.args) == 1 and norm(dcall.args[0]) == 'self._etype' and \
            len(dcall.keywords) == 1 and dcall.keywords[0].arg is None and \
            norm(dcall.keywords[0].value) == 'data' and recv(dcall) == 'self._dest'
        ck.ob(R2b, f"{send.fid} :: delivery arguments", okd,
              "self._dest.event(self._etype, **data)" if okd else
              f"delivery call is `{norm(dcall)}`; expected self._dest.event(self._etype, **data)",
              send, deliveries[0].ast)

    with ck.section('R14.3'):
        # ------------------------------------------------------------------ R14.3
        from rules.shared import event_send_rules
        event_send_rules(ck, R3, ('source',), lambda: _send_source_shape(ck, prog, R3))
        binit = prog.func('block:Block.__init__')
        gb = ck.cfg(binit.fid, 'M0')
        res_ok = any(isinstance(n.ast, ast.Raise) and gb.has_guard(n, "name.startswith('_')", True)
                     and gb.has_guard(n, '_reserved', False) for n in gb.nodes if n.kind == 'stmt')
        kwonly = any(a.arg == '_reserved' for a in binit.node.args.kwonlyargs)
        ck.ob(R3, f"{binit.fid} :: underscore names refused", res_ok and kwonly,
              "a name starting with '_' raises unless the keyword-only _reserved flag is set"
              if res_ok and kwonly else
              "Block.__init__ does not refuse names starting with '_' without _reserved", binit,
              binit.node)
        # the name that is checked is the name that is stored
        name_w = nodes_where(gb, lambda n: isinstance(n.ast, (ast.Assign, ast.AnnAssign)) and
                             norm(getattr(n.ast, 'target', None) or n.ast.targets[0]) == 'self.name')
        okn = bool(name_w) and all(norm(w.ast.value) == 'name' for w in name_w)
        ck.ob(R3, f"{binit.fid} :: checked name is stored", okn,
              "self.name = name (the checked value)" if okn else "self.name is not the checked value",
              binit, name_w[0].ast if name_w else binit.node)

        # _reserved=True creation sites
        n_sites = 0
        for fi in prog.pkg_funcs(include_demo=True):
            g = None
            for call in [x for x in own_nodes(fi.node) if isinstance(x, ast.Call)]:
                kv = kw(call, '_reserved')
                if kv is None:
                    continue
                if isinstance(kv, ast.Constant) and kv.value is False:
                    continue
                n_sites += 1
                g = g or ck.cfg(fi.fid, 'M1')
                nodes = g.node_of(call)
                ck.need(R3, nodes, f"cannot locate {norm1(call)} in the CFG of {fi.fid}")
                node = nodes[0]
                ok, why = _cannot_be_ext(ck, fi, g, node, call.args[0] if call.args else None)
                ck.ob(R3, f"{fi.fid} :: {call_name(call)}(.., _reserved=True)", ok, why, fi, call)
        ck.need(R3, n_sites >= 1, "no _reserved=True creation site found")
        # automatic names
        bad_cls = [c.qual for c in prog.classes.values() if c.name == 'ext']
        auto = nodes_where(gb, lambda n: isinstance(n.ast, ast.Assign) and
                           norm(n.ast.targets[0]) == 'prefix')
        okauto = not bad_cls and bool(auto) and "type(self).__name__" in norm(auto[0].ast.value)
        ck.ob(R3, f"{binit.fid} :: automatic names", okauto,
              "automatic names are '_' + class name + '_' + n and no class is named 'ext'"
              if okauto else f"automatic names may collide with the '_ext_' prefix: {bad_cls}",
              binit, auto[0].ast if auto else binit.node)


def _incompatible(lit: str) -> bool:
    """Can a string with prefix `lit` never start with '_ext_'?"""
    m = min(len(lit), len(PREFIX))
    return lit[:m] != PREFIX[:m]


def _cannot_be_ext(ck, fi, g, node, arg):
    if arg is None:
        return False, "no name argument"
    if isinstance(arg, ast.Constant):
        ok = isinstance(arg.value, str) and not arg.value.startswith(PREFIX)
        return ok, f"literal name {arg.value!r}"
    if isinstance(arg, ast.Name):
        for e, p in g.guards(node):
            t, cp = canon_fact(e, p)
            if isinstance(e, ast.Compare) and len(e.ops) == 1 and isinstance(e.ops[0], ast.Eq) and p:
                sides = [e.left, e.comparators[0]]
                names = [s for s in sides if isinstance(s, ast.Name) and s.id == arg.id]
                lits = [s for s in sides if isinstance(s, ast.Constant) and isinstance(s.value, str)]
                if names and lits and not lits[0].value.startswith(PREFIX):
                    return True, f"created only under `{arg.id} == {lits[0].value!r}`"
            sw = _is_startswith(e)
            if sw and p and sw[0] == arg.id and _incompatible(sw[1]):
                return True, (f"created only under `{arg.id}.startswith({sw[1]!r})`, which "
                              f"excludes the prefix '{PREFIX}'")
        rd = ck.rdefs(fi.fid, 'M1')
        vals = rd.value_exprs(node, arg.id)
        if vals and all(not isinstance(v, str) and _all_literals_ok(v) for v in vals):
            return True, f"`{arg.id}` is one of the literals {[norm(v) for v in vals]}"
    return False, (f"the reserved name `{norm(arg)}` is not provably different from an "
                   f"'{PREFIX}...' name")


def _all_literals_ok(v) -> bool:
    if isinstance(v, ast.Constant):
        return isinstance(v.value, str) and not v.value.startswith(PREFIX)
    if isinstance(v, ast.IfExp):
        return _all_literals_ok(v.body) and _all_literals_ok(v.orelse)
    return False


def _send_source_shape(ck, prog, R3):
    """Shape form of the Event.send part of R14.3 for the layout of the pinned tree."""
    es = prog.func('block:Event.send')
    ge = ck.cfg(es.fid, 'M0')
    sw_nodes = nodes_where(ge, lambda n: n.kind == 'stmt' and any(
        norm(t.value) == 'data' and is_const(t.slice, 'source') for t, k, s in subscript_writes(n.ast)))
    ok = len(sw_nodes) == 1 and isinstance(sw_nodes[0].ast, ast.Assign) and \
        norm(sw_nodes[0].ast.value) == f"{(es.node.args.posonlyargs + es.node.args.args)[1].arg}.name"
    ck.ob(R3, f"{es.fid} :: source overwritten", ok,
          "data['source'] = <sender>.name (plain assignment: an inner 'source' item cannot survive)"
          if ok else "Event.send does not unconditionally assign data['source'] = source.name",
          es, sw_nodes[0].ast if sw_nodes else es.node)
    if sw_nodes:
        s0 = sw_nodes[0]
        loops = nodes_where(ge, lambda n: n.kind == 'for' and 'self._filters' in norm(n.ast.iter),
                            kinds=('for',))
        dests = nodes_calling(ge, 'event')
        cond = [gt for gt in ge.guard_texts(s0)]
        # guards that only lead to raise on the other side are fine; require that the node
        # dominates the filter loop and the delivery
        ok = bool(loops) and bool(dests) and all(ge.dominates(s0, x) for x in loops + dests)
        ck.ob(R3, f"{es.fid} :: before filters and delivery", ok,
              "the assignment dominates the filter loop and the delivery" if ok else
              "a filter or the destination can see the event before 'source' is set", es, s0.ast)
