"""Rule sets, one module per property (C01..C20)."""
