"""C05 -- After start-up every block has a valid output, taken from the documented sources."""
from __future__ import annotations

import ast

from sa.loader import recv, norm, norm1, walk_shallow, own_nodes, call_name
from sa.absval import Interp
from sa.cfg import canon_fact, decompose
from sa.typestate import check_language
from sa.rulekit import (nodes_where, node_calls, node_roots, nodes_calling, return_nodes, own,
                        nodes_writing_attr, must_pass, is_const, written_value, expr_is, kw,
                        call_sites, handlers_in, handler_reraises, catches_broad)
from sa.report import path_witness

CIRC = 'simulator:Circuit'

UNDECIDED = [
    "outcomes for concrete combinations of succeeding / failing / timing-out initialisation "
    "sources and real waiting times -- schedules; NOT decided",
    "the data flow inside ValuePoll / InitAsync user coroutines",
]


def _const_int(e):
    if isinstance(e, ast.Constant) and isinstance(e.value, int) and not isinstance(e.value, bool):
        return e.value
    if isinstance(e, ast.UnaryOp) and isinstance(e.op, ast.USub) and isinstance(e.operand, ast.Constant):
        return -e.operand.value
    return None


def run(ck):
    ck.explanation = (
        "Circuit.init_sblock (edzed/simulator.py) is checked as a typestate language under fault "
        "model M1: (marker -1, restore?, step 1)? (marker -2, init_regular, init_from_value?, "
        "step 2)? with the guards of each hook; the step counter has two writers; the early "
        "initialisation in SBlock.event is reachable exactly for step values 0 and 1 (range test "
        "evaluated on {-2..2}); each hook has one caller; the phases of run_forever dominate each "
        "other in the documented order; the 'not initialized' check is a separate loop after the "
        "initialisation loop (order independence); the async selection has its three conjuncts "
        "and the waits are wait_for with a time-out sorted descending; wait_init() returns "
        "normally only behind a test of the simulator's error state.")
    ck.undecided = UNDECIDED
    prog = ck.prog
    circ = prog.cls(CIRC)
    isb = circ.methods.get('init_sblock')
    ck.need('R05.1', isb is not None, "Circuit.init_sblock not found")

    R1 = ck.rule('R05.1', "source order inside a block (typestate, M1): (m1 P? d1)? (m2 R V? d2)? "
                 "-- restore only for persistent blocks; init_from_value(initdef) only if still "
                 "uninitialised, the method exists and initdef is not UNDEF", 'M1', 4)
    R2 = ck.rule('R05.2', "at most once: the step counter has two writers, each hook runs between "
                 "its negative marker and its positive step number, the guards read a snapshot; "
                 "an early event initialises exactly for step values 0 and 1 with the guard "
                 "lifted; every hook has a single caller", 'M0', 9)
    R3 = ck.rule('R05.3', "phase order: start() loop, yield, sync part 1, async part, sync part 2, "
                 "'initialized' signal (only without error), simulation", 'M1', 3)
    R4 = ck.rule('R05.4', "order independence: the 'not initialized' check is a separate loop "
                 "entered only after every block had its synchronous initialisation; all loops "
                 "cover all sequential blocks", 'M0', 3)
    R5 = ck.rule('R05.5', "async selection (uninitialised, has init_async, positive time-out) and "
                 "bounded wait (wait_for with remaining time, longest time-out first)", 'M0', 5)
    R6 = ck.rule('R05.6', "failure => error: initialisation errors are re-raised; an "
                 "uninitialised block raises EdzedCircuitError", 'M0', 3)
    R7 = ck.rule('R05.7', "wait_init() returns normally only for a running, initialised circuit: "
                 "every normal exit lies behind the completed wait and a test of the simulator's "
                 "error state", 'M1', 2)

    R8 = ck.rule('R05.8', "saved persistent state is the first and unconditional source: abstract run of "
                 "init_from_persistent_data - a valid saved state is handed to _restore_state exactly once, "
                 "whether or not the block already has an output; early events are initialised first "
                 "(abstract run of SBlock.event)", 'M0', 2)
    with ck.section('R05.8'):
        from sa.minieval import MiniEval as _ME8
        from rules.c06 import _resolver_for as _rf8
        ap8 = prog.cls('addons:AddonPersistence')
        ifp8 = ap8.methods.get('init_from_persistent_data')
        ck.need(R8, ifp8 is not None, "AddonPersistence.init_from_persistent_data not found")
        bad8 = []
        for init8 in (False, True):
            for exp8 in (None, 5):
                calls8 = []
                env8 = {'self.is_initialized': lambda init8=init8: init8, 'self.initialized': init8,
                        'self.expiration': exp8, 'self.circuit.persistent_ts': 100, 'time.time()': 101,
                        'self.circuit.persistent_dict[self.key]': 'STATE', 'self.circuit.persistent_dict': 'STORAGE',
                        'self._restore_state': lambda st_, calls8=calls8: calls8.append(st_)}
                out8 = _ME8(R8, env8, resolve=_rf8(prog, ap8)).run(ifp8.node.body)
                ck.abstract_cases += 1
                if out8[0] != 'return' or calls8 != ['STATE']:
                    bad8.append(f"block {'already' if init8 else 'not yet'} initialised, expiration={exp8!r}: "
                                f"_restore_state called {len(calls8)} time(s) ({out8[0]})")
        ck.ob(R8, f"{ifp8.fid} :: abstract run :: unconditional first source", not bad8,
              "a valid saved state is restored exactly once in all 4 cases" if not bad8 else
              '; '.join(bad8[:2]) + ": state that is not visible in the output is lost and the stale value is "
              "written back to the storage", ifp8, ifp8.node)
        from rules.eventrun import event_run_obligations as _ero8
        _ero8(ck, R8, ('init',))
    with ck.section('R05.1'):
        from rules.shared import undef_refused_everywhere
        undef_refused_everywhere(ck, R6)
        g = ck.cfg(isb.fid, 'M1')
        bp = isb.node.args.args[0].arg          # blk
        steps_w = nodes_writing_attr(g, 'init_steps_completed', base=bp)

        def events(n):
            ev = []
            if n in steps_w:
                v = _const_int(written_value(n, 'init_steps_completed'))
                ev.append({-1: 'm1', -2: 'm2', 1: 'd1', 2: 'd2'}.get(v, 'wX'))
            for c in node_calls(n):
                cn = call_name(c)
                if cn == 'init_from_persistent_data':
                    ev.append('P')
                elif cn == 'init_regular':
                    ev.append('R')
                elif cn == 'init_from_value':
                    ev.append('V')
            return ev
        try:
            ok, wit, st = check_language(g, "( m1 P? d1 )? ( m2 R V? d2 )?", events, [g.exit])
            ck.product_states += st['product_states']
            ck.ob(R1, f"{isb.fid} :: step protocol", ok,
                  "every normal path follows (marker, restore?, 1)? (marker, regular, from-value?, 2)?"
                  if ok else f"a path performs {' '.join(wit[1])}", isb, isb.node,
                  witness=path_witness(g, wit[0]) if wit else None)
        except Exception as err:
            ck.ob(R1, f"{isb.fid} :: step protocol", False, f"unexpected step: {err}", isb, isb.node)
        # ---- the same protocol decided by an abstract run of init_sblock on every combination of
        # (steps completed, full, persistent add-on?, initialised by the restore?, initialised by the
        # regular routine?, init_from_value defined?, initdef given?) with recording hooks: independent
        # of how the function is laid out (helpers, nesting, duplicated arms)
        from sa.minieval import MiniEval
        import itertools as _it
        fullp = isb.node.args.args[2].arg if len(isb.node.args.args) > 2 else (
            isb.node.args.kwonlyargs[0].arg if isb.node.args.kwonlyargs else 'full')
        run_bad = []
        n_run = 0
        for steps_, full_, pers_, ini_r, ini_g, hasm, defd in _it.product(
                (-2, -1, 0, 1, 2), (False, True), (False, True), (False, True), (False, True),
                (False, True), (False, True)):
            trace = []
            state = {'init': False}

            def _restore(trace=trace, state=state, ini_r=ini_r):
                trace.append('P')
                state['init'] = state['init'] or ini_r

            def _regular(trace=trace, state=state, ini_g=ini_g):
                trace.append('R')
                state['init'] = state['init'] or ini_g

            def _fromvalue(v, trace=trace, state=state):
                trace.append(f'V:{v}')
                state['init'] = True
            env = {bp: 'BLK', fullp: full_, f'{bp}.init_steps_completed': steps_,
                   f'isinstance({bp}, addons.AddonPersistence)': pers_, f'{bp}.persistent': pers_,
                   f'{bp}.init_from_persistent_data': _restore, f'{bp}.init_regular': _regular,
                   f'{bp}.init_from_value': _fromvalue,
                   f'{bp}.is_initialized': lambda state=state: state['init'],
                   f'{bp}.has_method': lambda name, hasm=hasm: hasm and name == 'init_from_value',
                   f'{bp}.initdef': 'INITDEF' if defd else 'UNDEF', 'block.UNDEF': 'UNDEF',
                   '__setattr__': lambda k, v, trace=trace: trace.append(f'm{v}') if k.endswith('init_steps_completed') else None}
            try:
                out = MiniEval(R1, env).run(isb.node.body)
            except Exception as err:        # outside the fragment: this formulation abstains
                run_bad = None
                ck.note(f"R05.1 abstract run not applicable: {err}")
                break
            n_run += 1
            ck.abstract_cases += 1
            want = []
            if steps_ == 0:
                want += ['m-1'] + (['P'] if pers_ else []) + ['m1']
            if steps_ == 1 or (steps_ == 0 and full_):
                init_now = (pers_ and ini_r and steps_ == 0) or ini_g
                want += ['m-2', 'R'] + (['V:INITDEF'] if (not init_now and hasm and defd) else []) + ['m2']
            if out[0] != 'return' or trace != want:
                run_bad.append(f"steps={steps_}, full={full_}, persistent={pers_}, restored={ini_r}, "
                               f"regular initialises={ini_g}, has init_from_value={hasm}, initdef given={defd}: "
                               f"{trace} ({out[0]}), documented {want}")
        run_ok = run_bad is not None and not run_bad
        if run_bad is not None:
            ck.ob(R1, f"{isb.fid} :: abstract run of the step protocol", run_ok,
                  f"evaluated on {n_run} combinations: markers, restore, regular routine and initdef "
                  f"fall-back are called exactly as documented" if run_ok else "; ".join(run_bad[:3]), isb, isb.node)
        pn = nodes_calling(g, 'init_from_persistent_data')
        ok = len(pn) == 1 and g.has_guard(pn[0], f'isinstance({bp}, addons.AddonPersistence)', True) \
            and g.has_guard(pn[0], f'{bp}.persistent', True)
        ck.ob(R1, f"{isb.fid} :: restore guard", ok or run_ok,
              "restored only for a persistent block with the persistence add-on" if ok else
              "init_from_persistent_data is not guarded by isinstance(AddonPersistence) and "
              ".persistent", isb, pn[0].ast if pn else isb.node)
        vn = nodes_calling(g, 'init_from_value')
        ok = len(vn) == 1
        if ok:
            c = node_calls(vn[0], 'init_from_value')[0]
            ok = [norm(a) for a in c.args] == [f'{bp}.initdef'] and \
                g.has_guard(vn[0], f'{bp}.is_initialized()', False) and \
                g.has_guard(vn[0], f"{bp}.has_method('init_from_value')", True) and \
                g.has_guard(vn[0], f'{bp}.initdef is block.UNDEF', False)
        ck.ob(R1, f"{isb.fid} :: init_from_value guard", ok or run_ok,
              "init_from_value(blk.initdef) only if still uninitialised, defined, and initdef given"
              if ok else "init_from_value is not guarded by (uninitialised, method exists, initdef "
              "is not UNDEF) or does not receive blk.initdef", isb, vn[0].ast if vn else isb.node)
        rn = nodes_calling(g, 'init_regular')
        okr = len(rn) == 1 and bool(vn) and g.dominates(rn[0], vn[0])
        ck.ob(R1, f"{isb.fid} :: regular before from-value", okr or run_ok,
              "init_regular precedes init_from_value" if okr else
              "init_from_value can run before (or without) init_regular", isb, rn[0].ast if rn else isb.node)

    with ck.section('R05.2'):
        # ------------------------------------------------------------------ R05.2
        sinit = prog.func('block:SBlock.__init__')
        own(ck, R2, 'init_steps_completed', {sinit.fid: '0', isb.fid: 'markers and step numbers'})
        snap = nodes_where(g, lambda n: isinstance(n.ast, ast.Assign) and
                           norm(n.ast.value) == f'{bp}.init_steps_completed')
        ok = len(snap) == 1 and all(g.dominates(snap[0], w) for w in steps_w)
        sv = norm(snap[0].ast.targets[0]) if snap else None
        ck.ob(R2, f"{isb.fid} :: snapshot", ok,
              f"the guards read `{sv}`, taken before any marker is written" if ok else
              "the step guards do not read a snapshot taken before the first marker", isb,
              snap[0].ast if snap else isb.node)
        if sv:
            m1 = [w for w in steps_w if _const_int(written_value(w, 'init_steps_completed')) == -1]
            m2 = [w for w in steps_w if _const_int(written_value(w, 'init_steps_completed')) == -2]
            ok1 = bool(m1) and all(g.has_guard(w, f'{sv} == 0', True) for w in m1)
            ck.ob(R2, f"{isb.fid} :: step-1 guard", ok1,
                  "step 1 runs only when no step was completed" if ok1 else
                  "step 1 (restore) can run again for a block that already completed it", isb,
                  m1[0].ast if m1 else isb.node)
            ok2 = False
            for n in g.nodes:
                if n.kind == 'branch' and n.polarity and m2 and g.dominates(n, m2[0]):
                    t = n.test.ast
                    vals = {}
                    for s in (-2, -1, 0, 1, 2):
                        for full in (False, True):
                            try:
                                vals[(s, full)] = bool(Interp(R2, {sv: s, 'full': full}, 'ordering').ev(t))
                            except Exception:
                                vals = None
                                break
                        if vals is None:
                            break
                    if vals is not None:
                        want = {(s, f): (s == 1 or (s == 0 and f)) for s in (-2, -1, 0, 1, 2)
                                for f in (False, True)}
                        ok2 = ok2 or vals == want
            ck.ob(R2, f"{isb.fid} :: step-2 guard", ok2 or run_ok,
                  "step 2 runs for snapshot 1, or 0 with full=True -- never for a step in progress or "
                  "completed (evaluated on all 10 cases)" if ok2 else
                  "the guard of step 2 is not `steps == 1 or steps == 0 and full`", isb,
                  m2[0].ast if m2 else isb.node)
        ev = prog.func('block:SBlock.event')
        ge = ck.cfg(ev.fid, 'M0')
        early = nodes_calling(ge, 'init_sblock')
        ok = len(early) == 1
        why = "early initialisation call not found"
        if ok:
            c = node_calls(early[0], 'init_sblock')[0]
            full_ok = any(k.arg == 'full' and is_const(k.value, True) for k in c.keywords) and \
                [norm(a) for a in c.args] == ['self']
            rng = None
            for e, p in ge.guards(early[0]):
                if 'init_steps_completed' in norm(e):
                    rng = (e, p)
            truth = {}
            if rng is not None:
                for s in (-2, -1, 0, 1, 2):
                    try:
                        v = bool(Interp(R2, {'self.init_steps_completed': s}, 'ordering').ev(rng[0]))
                        truth[s] = v if rng[1] else not v
                    except Exception:
                        truth = None
                        break
            in_with = any(isinstance(w, ast.With) and '_enable_event' in norm(w.items[0].context_expr)
                          and any(x is c for s in w.body for x in walk_shallow(s))
                          for w in own_nodes(ev.node))
            ok = full_ok and truth == {-2: False, -1: False, 0: True, 1: True, 2: False} and in_with
            why = (f"init_sblock(self, full=True) under the range test (true exactly for 0 and 1), "
                   f"inside `with self._enable_event`" if ok else
                   f"early initialisation: full=True: {full_ok}; range test truth table {truth}; "
                   f"guard lifted: {in_with}")
        # the abstract run of SBlock.event (rules/eventrun.py) decides this clause on any layout; the shape
        # reading above is its statement-naming back-up
        from rules.eventrun import sblock_event_run
        er_ = sblock_event_run(ck)
        run_init_ok = er_['applicable'] and not er_['bad'].get('init')
        if run_init_ok and not ok:
            why = "[decided by the abstract run of SBlock.event] " + why
        ck.ob(R2, f"{ev.fid} :: early initialisation", ok or run_init_ok, why, ev, early[0].ast if early else ev.node)
        for hook, allowed in (('init_regular', {isb.fid}), ('init_from_value', {isb.fid}),
                              ('init_from_persistent_data', {isb.fid}),
                              ('init_async', {f'{CIRC}._init_sblocks_async'})):
            callers = set()
            for fi, c in call_sites(ck, hook):
                if isinstance(c.func, ast.Attribute) and isinstance(c.func.value, ast.Call) and \
                        norm(c.func.value.func) == 'super':
                    continue        # cooperative super() chains inside the hook itself
                callers.add(fi.fid)
            ok = callers == allowed
            ck.ob(R2, f"who calls {hook}", ok, f"{hook} is called by {sorted(callers)}" +
                  ('' if ok else f" (expected only {sorted(allowed)}): the routine could run twice"),
                  None, 'edzed/simulator.py:1')

    with ck.section('R05.3'):
        # ------------------------------------------------------------------ R05.3
        rf = circ.methods['run_forever']
        gr = ck.cfg(rf.fid, 'M1')
        start_loop = [n for n in gr.nodes if n.kind == 'for' and 'getblocks()' in norm(n.ast.iter)
                      and any(call_name(c) == 'start' for s in n.ast.body for c in [x for x in walk_shallow(s)
                                                                                     if isinstance(x, ast.Call)])]
        s1 = nodes_calling(gr, '_init_sblocks_sync_1')
        a = nodes_calling(gr, '_init_sblocks_async')
        s2 = nodes_calling(gr, '_init_sblocks_sync_2')
        d = nodes_where(gr, lambda n: any(call_name(c) == 'set' and recv(c) == 'self._init_done'
                                          for c in node_calls(n)))
        sim = nodes_calling(gr, '_simulate')
        chain = [start_loop, s1, a, s2, d, sim]
        ok = all(len(x) == 1 for x in chain)
        if ok:
            for x, y in zip(chain, chain[1:]):
                ok = ok and gr.dominates(x[0], y[0])
            sleeps = [n for n in nodes_calling(gr, 'sleep') if gr.dominates(start_loop[0], n)
                      and gr.dominates(n, s1[0])]
            ok = ok and bool(sleeps)
            ok = ok and any(isinstance(x, ast.Await) for x in walk_shallow(a[0].ast)) and \
                any(isinstance(x, ast.Await) for x in walk_shallow(sim[0].ast))
        ck.ob(R3, f"{rf.fid} :: phases", ok,
              "start loop -> yield -> sync 1 -> await async -> sync 2 -> initialized -> await simulate"
              if ok else "the start-up phases are not executed in the documented order", rf, rf.node)
        okd = len(d) == 1 and gr.has_guard(d[0], 'self._error is None', True)
        ck.ob(R3, f"{rf.fid} :: initialized signal", okd,
              "_init_done.set() only when no error was recorded" if okd else
              "the 'initialized' signal can be given although an error was recorded", rf,
              d[0].ast if d else rf.node)
        sets = [(fi.fid) for fi in prog.pkg_funcs() for x in own_nodes(fi.node)
                if isinstance(x, ast.Call) and call_name(x) == 'set' and '_init_done' in recv(x)]
        ck.ob(R3, "who sets _init_done", sets == [rf.fid], f"_init_done.set() sites: {sets}", rf, rf.node)

    with ck.section('R05.4'):
        # ------------------------------------------------------------------ R05.4
        s2f = circ.methods['_init_sblocks_sync_2']
        g2 = ck.cfg(s2f.fid, 'M0')
        loops = [n for n in g2.nodes if n.kind == 'for']
        init_loop = [l for l in loops if any(call_name(c) == 'init_sblock' for s in l.ast.body
                                             for c in [x for x in walk_shallow(s) if isinstance(x, ast.Call)])]
        chk = nodes_where(g2, lambda n: isinstance(n.ast, ast.Raise) and
                          g2.has_guard(n, 'blk.is_initialized()', False), kinds=('stmt',))
        ok = len(init_loop) == 1 and len(chk) == 1
        if ok:
            l1 = init_loop[0]
            body1 = g2.reachable_from(g2.nodes[[v for v, lab in g2.succ[l1.id] if lab == 'iter'][0]], avoid=[l1])
            in_body = chk[0].id in body1
            early_exit = [n for n in g2.nodes if n.id in body1 and n.kind == 'stmt'
                          and isinstance(n.ast, (ast.Raise, ast.Return, ast.Break))]
            ok = not in_body and not early_exit and g2.dominates(l1, chk[0])
        ck.ob(R4, f"{s2f.fid} :: check after the whole initialisation loop", ok,
              "no block is tested before every block ran its initialisation (a block may be "
              "initialised by an event sent from a later block's initialisation)" if ok else
              "a block can be declared 'not initialized' before all blocks ran their initialisation: "
              "start-up would depend on the creation order", s2f, chk[0].ast if chk else s2f.node)
        for fid in (s2f.fid, f'{CIRC}._init_sblocks_sync_1'):
            fi = prog.func(fid)
            gx = ck.cfg(fid, 'M0')
            ls = [n for n in gx.nodes if n.kind == 'for' and
                  any(x for s in n.ast.body for x in walk_shallow(s)
                      if isinstance(x, ast.Call) and call_name(x) in ('init_sblock', 'is_initialized'))]
            ok = bool(ls) and all(norm(l.ast.iter) == 'self.getblocks(block.SBlock)' for l in ls)
            ck.ob(R4, f"{fid} :: all sequential blocks", ok,
                  "iterates self.getblocks(block.SBlock)" if ok else
                  "an initialisation loop does not cover all sequential blocks", fi, fi.node)
        c1 = [c for f_, c in call_sites(ck, 'init_sblock') if f_.fid in (s2f.fid, f'{CIRC}._init_sblocks_sync_1')]
        ok = len(c1) == 2 and all(any(k.arg == 'full' and is_const(k.value, False) for k in c.keywords) for c in c1)
        ck.ob(R4, "two half-steps", ok, "both synchronous phases call init_sblock(blk, full=False)"
              if ok else "the synchronous phases do not perform the two half-steps", s2f, s2f.node)

    with ck.section('R05.5'):
        # ------------------------------------------------------------------ R05.5
        af = circ.methods['_init_sblocks_async']
        comp = [x for x in own_nodes(af.node) if isinstance(x, ast.ListComp)]
        ok = len(comp) == 1
        if ok:
            gen = comp[0].generators[0]
            conj = []
            for cond in gen.ifs:
                conj.extend(decompose(cond, True))
            facts = {canon_fact(e, p) for e, p in conj}
            v = norm(gen.target)
            want = {canon_fact(ast.parse(f'{v}.is_initialized()', mode='eval').body, False),
                    canon_fact(ast.parse(f"{v}.has_method('init_async')", mode='eval').body, True),
                    canon_fact(ast.parse(f'{v}.init_timeout > 0.0', mode='eval').body, True)}
            ok = want <= facts and norm(gen.iter) == 'self.getblocks(addons.AddonAsync)'
            elt = comp[0].elt
            ok = ok and isinstance(elt, ast.Tuple) and len(elt.elts) == 3 and norm(elt.elts[0]) == v and \
                norm(elt.elts[2]) == f'{v}.init_timeout' and isinstance(elt.elts[1], ast.Call) and \
                call_name(elt.elts[1]) in ('create_task', 'ensure_future') and \
                norm(elt.elts[1].args[0]) == f'{v}.init_async()'
        ck.ob(R5, f"{af.fid} :: selection", ok,
              "a task per block that is uninitialised, defines init_async and has init_timeout > 0"
              if ok else "the async initialisation is not selected by (uninitialised, has init_async, "
              "init_timeout > 0.0) or the (block, task, time-out) triple is malformed", af,
              comp[0] if comp else af.node)
        ga = ck.cfg(af.fid, 'M0')
        rt = nodes_calling(ga, '_run_tasks')
        ok = len(rt) == 1 and any(isinstance(x, ast.Await) for x in walk_shallow(rt[0].ast))
        if ok:
            c = node_calls(rt[0], '_run_tasks')[0]
            lst = norm(c.args[1]) if len(c.args) > 1 else None
            defs = [n for n in ga.nodes if n.kind == 'stmt' and isinstance(n.ast, ast.Assign)
                    and norm(n.ast.targets[0]) == lst]
            ok = len(defs) == 1 and comp and defs[0].ast.value is comp[0]
            skip = ga.path_avoiding(ga.entry, [ga.exit], avoid=rt)
            ok = ok and (skip is None or any(n.kind == 'branch' and not n.polarity and norm(n.test.ast) == lst
                                             for n in skip))
        ck.ob(R5, f"{af.fid} :: tasks are awaited", ok,
              "all created tasks are handed to `await self._run_tasks(...)`" if ok else
              "created init_async tasks are not (all) handed to _run_tasks", af, af.node)
        rtf = circ.methods['_run_tasks']
        gt = ck.cfg(rtf.fid, 'M1')
        awaits = nodes_where(gt, lambda n: any(isinstance(x, ast.Await) for r in node_roots(n)
                                               for x in walk_shallow(r)))
        ok = bool(awaits)
        for n in awaits:
            for r in node_roots(n):
                for x in walk_shallow(r):
                    if isinstance(x, ast.Await):
                        v = x.value
                        good = isinstance(v, ast.Call) and norm(v.func) == 'asyncio.wait_for' and \
                            len(v.args) == 2 and 'timeout' in norm(v.args[1]) and \
                            ('get_time()' in norm(v.args[1]) or 'time()' in norm(v.args[1]))
                        ok = ok and good
        # the elapsed time is measured from ONE reference point taken before the loop: the waits share
        # a single budget (otherwise each task would get its full time-out and the waits add up)
        from sa.dataflow import node_defs as _nd
        tloops = [n for n in gt.nodes if n.kind == 'for' and isinstance(n.ast.iter, ast.Call)
                  and call_name(n.ast.iter) == 'sorted']
        shared = bool(awaits) and bool(tloops)
        refname = None
        if shared:
            for n in awaits:
                for r in node_roots(n):
                    for x in walk_shallow(r):
                        if isinstance(x, ast.Await) and isinstance(x.value, ast.Call) and len(x.value.args) == 2:
                            names = [y.id for y in walk_shallow(x.value.args[1]) if isinstance(y, ast.Name)]
                            refs = [nm for nm in names if nm not in ('timeout', 'get_time')]
                            refname = refs[0] if len(refs) == 1 else None
            if refname is None:
                shared = False
            else:
                rdefs = [n for n in gt.nodes if n.kind in ('stmt', 'for', 'with') and refname in _nd(n)]
                body = gt.reachable_from(gt.nodes[[v for v, lab in gt.succ[tloops[0].id] if lab == 'iter'][0]],
                                         avoid=[tloops[0]])
                shared = len(rdefs) == 1 and rdefs[0].id not in body and gt.dominates(rdefs[0], tloops[0]) \
                    and isinstance(rdefs[0].ast, ast.Assign) and norm(rdefs[0].ast.value) in ('get_time()',) \
                    and all(n.id in body for n in awaits)
                # time-out minus elapsed: timeout - (now - start)  ==  timeout - now + start
                for n in awaits:
                    for r in node_roots(n):
                        for x in walk_shallow(r):
                            if isinstance(x, ast.Await) and isinstance(x.value, ast.Call) and len(x.value.args) == 2:
                                shared = shared and _linear_form(x.value.args[1]) == {'timeout': 1, 'get_time()': -1,
                                                                                     refname: 1}
        ck.ob(R5, f"{rtf.fid} :: one shared time budget", shared,
              f"remaining = timeout - (now - {refname}) with `{refname}` taken once before the loop: "
              f"the total wait is bounded by the largest time-out" if shared else
              "the reference time of the remaining-time computation is not taken exactly once before "
              "the loop (each task would get its full time-out: the waits add up beyond the largest "
              "init_timeout), or the expression is not timeout - elapsed", rtf,
              awaits[0].ast if awaits else rtf.node)
        ck.ob(R5, f"{rtf.fid} :: bounded waits", ok,
              "every await is asyncio.wait_for(task, <time-out minus elapsed time>)" if ok else
              "a task is awaited without a time-out derived from the block's time-out and the elapsed "
              "time", rtf, awaits[0].ast if awaits else rtf.node)
        loops = [n for n in gt.nodes if n.kind == 'for' and isinstance(n.ast.iter, ast.Call)
                 and call_name(n.ast.iter) == 'sorted']
        ok = len(loops) >= 1
        if ok:
            it = loops[0].ast.iter
            rev = kw(it, 'reverse')
            key = kw(it, 'key')
            ok = is_const(rev, True) and key is not None and \
                norm(key) in ('operator.itemgetter(2)', 'lambda x: x[2]', 'lambda t: t[2]')
        ck.ob(R5, f"{rtf.fid} :: longest time-out first", ok,
              "tasks are awaited in descending time-out order: the total wait is bounded by the "
              "largest time-out" if ok else
              "the tasks are not awaited longest-time-out first (the total wait could exceed the "
              "largest time-out)", rtf, loops[0].ast if loops else rtf.node)

    with ck.section('R05.6'):
        # ------------------------------------------------------------------ R05.6
        for fi in (isb, s2f, prog.func(f'{CIRC}._init_sblocks_sync_1')):
            bad = [h for h in handlers_in(fi) if catches_broad(h) and not handler_reraises(fi, h)]
            ck.ob(R6, f"{fi.fid} :: no swallow", not bad,
                  "initialisation errors propagate to the simulator" if not bad else
                  "an initialisation error is swallowed", fi, bad[0] if bad else fi.node)
        ok = bool(chk) and chk[0].kinds == {'N:EdzedCircuitError'}
        ck.need(R6, chk, "the 'not initialized' raise was not found")

    with ck.section('R05.7'):
        # ------------------------------------------------------------------ R05.7
        # what wait_init() waits on exists as soon as it can get past its "started" test: in run_forever no
        # path (M0: explicit raises) leaves between the registration of the task and the creation of the
        # signal - otherwise a start that fails at once answers wait_init() with an AttributeError instead
        # of EdzedInvalidState (defect F21)
        rf7 = circ.methods.get('run_forever')
        ck.need(R7, rf7 is not None, "Circuit.run_forever not found")
        g7 = ck.cfg(rf7.fid, 'M0')
        reg7 = nodes_writing_attr(g7, '_simtask')
        sig7 = nodes_writing_attr(g7, '_init_done')
        ck.need(R7, len(reg7) == 1, "run_forever: registration of the simulation task not recognised")
        if sig7 and any(g7.dominates(s7, reg7[0]) for s7 in sig7):
            wit7 = None         # created even before the task is registered
        else:
            wit7 = g7.path_avoiding(reg7[0], [g7.exit, g7.raise_exit], avoid=sig7, start_successors_only=True) \
                if sig7 else [reg7[0]]
        ck.ob(R7, f"{rf7.fid} :: signal exists once the task is registered", bool(sig7) and wit7 is None,
              "self._init_done is created on every path that follows the registration of the task, before "
              "anything can fail" if sig7 and wit7 is None else
              "the start can fail between `self._simtask = ...` and the creation of self._init_done: a "
              "concurrent wait_init() then dies with AttributeError instead of raising EdzedInvalidState",
              rf7, reg7[0].ast, witness=path_witness(g7, wit7 if sig7 else None))
        wi = circ.methods.get('wait_init')
        ck.need(R7, wi is not None, "Circuit.wait_init not found")
        gw = ck.cfg(wi.fid, 'M1')
        waits = nodes_where(gw, lambda n: any(isinstance(x, ast.Await) and isinstance(x.value, ast.Call)
                                              and call_name(x.value) in ('wait', 'wait_for')
                                              for r in node_roots(n) for x in walk_shallow(r)))
        ck.need(R7, len(waits) == 1, "wait_init: the wait for initialisation was not recognised")
        okw = '_init_done' in ' '.join(norm(n.ast) for n in gw.nodes if n.kind == 'stmt' and n.ast is not None) \
            and gw.path_avoiding(gw.entry, [gw.exit], avoid=waits) is None
        ck.ob(R7, f"{wi.fid} :: waits", okw,
              "every normal return follows the completed wait for the 'initialized' signal or the end "
              "of the simulation task" if okw else "wait_init can return without waiting", wi,
              waits[0].ast)
        okstate = [n for n in gw.nodes if n.kind == 'branch' and (
            any(canon_fact(e, p) in (('self._error is None', True), ('self.is_ready()', True))
                for e, p in decompose(n.test.ast, n.polarity)) or
            any(canon_fact(e, p) == (("(error := self._error) is None"), True)
                for e, p in decompose(n.test.ast, n.polarity)))]
        # an alias counts as well: `<name> is None` where <name> was read from self._error after the wait
        rdw = ck.rdefs(wi.fid, 'M1')
        for n in gw.nodes:
            if n.kind != 'branch' or n in okstate:
                continue
            for e, pol in decompose(n.test.ast, n.polarity):
                t, cp = canon_fact(e, pol)
                if cp and t.endswith(' is None') and t[:-8].isidentifier():
                    nm = t[:-8]
                    vals = rdw.value_exprs(n.test, nm)
                    defs = rdw.defs_at(n.test, nm)
                    if vals and all(not isinstance(v, str) and norm(v) == 'self._error' for v in vals) and \
                            all(gw.dominates(waits[0], d) for d in defs):
                        okstate.append(n)
        p = gw.path_avoiding(waits[0], [gw.exit], avoid=okstate, start_successors_only=True)
        ck.ob(R7, f"{wi.fid} :: error state tested", p is None,
              "a normal return is possible only when the simulator's error slot is empty (the "
              "'initialized' signal precedes the first evaluation, which may already have failed)"
              if p is None else
              "wait_init() can return normally although the simulation has already failed (only "
              "the task's done() state is tested; the task may still be cleaning up)", wi, wi.node,
              witness=path_witness(gw, p))


def _linear_form(e):
    """Coefficients of a +/- combination of atomic terms (names and calls), e.g.
    `timeout - get_time() + start_time` -> {'timeout': 1, 'get_time()': -1, 'start_time': 1}."""
    out = {}

    def walk(x, sign):
        if isinstance(x, ast.BinOp) and isinstance(x.op, (ast.Add, ast.Sub)):
            walk(x.left, sign)
            walk(x.right, sign if isinstance(x.op, ast.Add) else -sign)
        elif isinstance(x, ast.UnaryOp) and isinstance(x.op, ast.USub):
            walk(x.operand, -sign)
        else:
            k = norm(x)
            out[k] = out.get(k, 0) + sign
    walk(e, 1)
    return {k: v for k, v in out.items() if v != 0}
