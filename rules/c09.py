"""C09 -- The first error stops the simulation and is the one that gets reported."""
from __future__ import annotations

import ast

from sa.loader import recv, norm, norm1, walk_shallow, own_nodes, call_name
from sa.cfg import handler_types
from sa.rulekit import (nodes_calling, node_calls, nodes_where, return_nodes, own, is_const,
                        nodes_writing_attr, must_pass, written_value, handlers_in,
                        handler_reraises, catches_broad, call_sites, check_must_pass, expr_is)
from sa.report import path_witness

SIM = 'simulator:Circuit'

UNDECIDED = [
    "which of two errors fired at the very same instant is delivered first (an asyncio "
    "scheduling fact) -- not decided",
    "the traceback-depth heuristic that tells parameter errors from handler errors (run-time "
    "data) -- only its position before abort() is checked",
]

# handlers for Exception or broader that do NOT re-raise: the designated sinks
SINK_TABLE = {
    ('simulator:Circuit._run_tasks', 'Exception'): "async init / async stop: errors are logged below from task.exception()",
    ('simulator:Circuit._stop_sblocks', 'Exception'): "error isolation of stop() (two handlers)",
    ('addons:AddonPersistence.init_from_persistent_data', 'Exception'): "retrieval and restore errors are logged (two handlers)",
    ('addons:AddonPersistence.save_persistent_state', 'Exception'): "save errors are logged, stale entry removed",
    ('simulator:reset_circuit', 'Exception'): "abort on a closed loop is ignored",
    ('simulator:Circuit.is_current_task', 'Exception'): "probe: returns False",
    ('blocklib.sblocks2:OutputFunc._event_put', 'Exception'): "failure of the user's output function is the block's result (on_error)",
    ('blocklib.sblocks2:OutputAsync._output_coro', 'Exception'): "failure of the user's coroutine is the block's result (on_error)",
    ('simulator:run', 'Exception'): "collector: keeps the first error and raises it after the loop",
    ('simulator:Circuit.run_forever', '(Exception, asyncio.CancelledError)'): "the designated sink of the simulator",
}
CRITICAL = ['simulator:Circuit._simulate', 'simulator:Circuit.init_sblock',
            'simulator:Circuit._init_sblocks_sync_1', 'simulator:Circuit._init_sblocks_sync_2',
            'simulator:Circuit._finalize.<locals>.validate_output',
            'simulator:Circuit._init_sblocks_async', 'block:SBlock.event',
            'addons:AddonPersistence.event', 'addons:AddonAsync._task_monitor',
            'fsm:FSM._ctx_event', 'fsm:FSM._event', 'block:CBlock.eval_block',
            'block:SBlock.set_output', 'block:Event.send']


def run(ck):
    ck.explanation = (
        "simulator.py / block.py / addons.py: the error slot Circuit._error has three writers and "
        "each non-initial write is dominated by 'slot is empty' (write-once); run_forever raises "
        "what was recorded; shutdown() and run() absorb only CancelledError and run() keeps the "
        "first error; SBlock.event calls abort() with the cause attached before re-raising and "
        "never for EdzedUnknownEvent; the task monitor reaches abort() on every exceptional exit; "
        "no handler on the critical path swallows; every handler in the package that catches "
        "Exception or broader without re-raising is one of the designated, enumerated sinks and "
        "none of those calls abort().")
    ck.undecided = UNDECIDED
    prog = ck.prog
    circ = prog.cls(SIM)

    R1 = ck.rule('R09.1', "write-once error slot: _error is written by __init__, run_forever's "
                 "handler and abort() only; every non-initial write is dominated by 'slot is "
                 "empty'; abort() records before it cancels; a non-exception becomes TypeError; "
                 "is_ready() requires an empty slot", 'M0', 7)
    R2 = ck.rule('R09.2', "what is raised is what was recorded: run_forever ends with `raise "
                 "self._error`; a pre-start abort is raised inside the main try before any "
                 "start(); shutdown() absorbs only CancelledError; run() keeps the first error "
                 "(simulation task first) and raises it after the loop", 'M1', 8)
    from rules.shared import pending_cancel_absorbed
    pending_cancel_absorbed(ck, R2)
    R3 = ck.rule('R09.3', "fatal classes always reach the simulator: SBlock.event aborts (cause "
                 "attached) before re-raising, never for EdzedUnknownEvent; the task monitor "
                 "aborts on every Exception exit and treats a service's return as an error; no "
                 "handler on the critical path swallows; ControlBlock events reach abort()",
                 'M1', 12)
    R4 = ck.rule('R09.4', "non-fatal classes never reach it: every handler catching Exception or "
                 "broader that does not re-raise is a designated sink of the frozen table and "
                 "does not call abort()", 'M0', 12)

    with ck.section('R09.1'):
        # ------------------------------------------------------------------ R09.1
        init, rf, ab = (circ.methods.get(n) for n in ('__init__', 'run_forever', 'abort'))
        ck.need(R1, init and rf and ab, "Circuit.__init__/run_forever/abort not found")
        own(ck, R1, '_error', {init.fid: 'None', rf.fid: 'first error caught by the main handler',
                               ab.fid: 'abort()'})
        for fi in (rf, ab):
            g = ck.cfg(fi.fid, 'M1')
            ws = nodes_writing_attr(g, '_error')
            ck.need(R1, ws, f"{fi.fid} does not write _error")
            for w in ws:
                ok = g.has_guard(w, 'self._error is None', True)
                v = written_value(w, '_error')
                not_none = not is_const(v, None)
                ck.ob(R1, f"{fi.fid} :: {norm1(w.ast)}", ok and not_none,
                      "written only while the slot is empty" if ok and not_none else
                      ("the error slot is overwritten although it may already hold the first error"
                       if not ok else "the error slot is reset to None"), fi, w.ast)
        g = ck.cfg(ab.fid, 'M0')
        w = nodes_writing_attr(g, '_error')[0]
        cancels = nodes_calling(g, 'cancel')
        ok = len(cancels) == 1 and g.dominates(w, cancels[0]) and \
            recv(node_calls(cancels[0], 'cancel')[0]) == 'self._simtask'
        ck.ob(R1, f"{ab.fid} :: record then cancel", ok,
              "the error is recorded before the simulation task is cancelled" if ok else
              "abort() cancels the task before (or without) recording the error", ab,
              cancels[0].ast if cancels else ab.node)
        conv = nodes_where(g, lambda n: isinstance(n.ast, ast.Assign) and
                           isinstance(n.ast.value, ast.Call) and call_name(n.ast.value) == 'TypeError'
                           and g.has_guard(n, 'isinstance(exc, BaseException)', False))
        param = ab.node.args.args[1].arg
        okc = bool(conv) and expr_is(ck, ab.fid, 'M0', w, written_value(w, '_error'), param) is False or \
            (bool(conv) and norm(written_value(w, '_error')) == param and
             norm(conv[0].ast.targets[0]) == param and g.dominates(conv[0], w) is False)
        okc = bool(conv) and norm(written_value(w, '_error')) == param
        ck.ob(R1, f"{ab.fid} :: non-exception argument", okc,
              "a non-exception argument is replaced by a TypeError (still an error)" if okc else
              "abort(<non-exception>) is not turned into an error", ab, ab.node)
        isr = circ.methods.get('is_ready')
        gi = ck.cfg(isr.fid, 'M0')
        r = return_nodes(gi)
        ok = len(r) == 1 and isinstance(r[0].ast.value, ast.BoolOp) and isinstance(r[0].ast.value.op, ast.And) \
            and any(norm(v) in ('self._error is None', 'not self._error') for v in r[0].ast.value.values) \
            and any(norm(v) == 'self._simtask is not None' for v in r[0].ast.value.values)
        ck.ob(R1, isr.fid, ok, "is_ready() = task exists and error slot empty (never ready again "
              "once stopped: the slot is write-once)" if ok else
              "is_ready() does not require an empty error slot", isr, isr.node)
        cnf = circ.methods.get('check_not_finalized')
        gcn = ck.cfg(cnf.fid, 'M0')
        rs = nodes_where(gcn, lambda n: isinstance(n.ast, ast.Raise) and gcn.has_guard(n, 'self._error', True),
                         kinds=('stmt',))
        ck.ob(R1, cnf.fid, bool(rs), "a circuit that was shut down refuses modification" if rs else
              "check_not_finalized does not raise when the error slot is set", cnf, cnf.node)

    with ck.section('R09.2'):
        # ------------------------------------------------------------------ R09.2
        g = ck.cfg(rf.fid, 'M1')
        final = [n for n in g.nodes if n.kind == 'stmt' and isinstance(n.ast, ast.Raise)
                 and any(v == g.raise_exit.id for v, _ in g.succ[n.id])]
        late = [n for n in final if not g.has_guard(n, 'self._simtask is not None', True)]
        rdf = ck.rdefs(rf.fid, 'M1')
        mainh = [n for n in g.nodes if n.kind == 'handler' and g.pred[n.id] and
                 set(handler_types(n.ast)) >= {'Exception', 'CancelledError'}]

        def _is_slot(node_, e_):
            """self._error, or a local read from it after the main try was left (the slot is write-once
            - R09.1 - so a snapshot taken there is the recorded error)"""
            if e_ is None:
                return False
            if norm(e_) == 'self._error':
                return True
            if isinstance(e_, ast.Name):
                vals_ = rdf.value_exprs(node_, e_.id)
                defs_ = rdf.defs_at(node_, e_.id)
                in_try = set()
                for tr_ in [x for x in own_nodes(rf.node) if isinstance(x, ast.Try) and any(
                        set(handler_types(h)) >= {'Exception', 'CancelledError'} for h in x.handlers)]:
                    in_try |= {id(y) for st_ in tr_.body for y in ast.walk(st_)}
                try_nodes = {x.id for x in g.nodes if x.ast is not None and id(x.ast) in in_try}
                return bool(vals_) and all(not isinstance(v_, str) and norm(v_) == 'self._error' for v_ in vals_) \
                    and all(id(d.ast) not in in_try and not (g.reachable_from(d) & try_nodes) for d in defs_)
            return False
        ok = bool(late) and all(_is_slot(n, n.ast.exc) for n in late)
        ck.ob(R2, f"{rf.fid} :: final raise", ok,
              "run_forever ends with `raise self._error` (the recorded first error)" if ok else
              f"run_forever raises {[norm(n.ast.exc) for n in late]} instead of the recorded error",
              rf, late[0].ast if late else rf.node)
        ck.ob(R2, f"{rf.fid} :: never returns", g.exit.id not in g.reachable(),
              "run_forever has no normal exit" if g.exit.id not in g.reachable() else
              "run_forever can return normally (callers rely on an exception)", rf, rf.node)
        hs = [n for n in g.nodes if n.kind == 'handler' and g.pred[n.id]]
        main = [h for h in hs if set(handler_types(h.ast)) >= {'Exception', 'CancelledError'}]
        ck.ob(R2, f"{rf.fid} :: main handler", len(main) == 1,
              "the main try catches Exception and CancelledError" if len(main) == 1 else
              "the main handler does not catch both Exception and CancelledError", rf,
              main[0].ast if main else rf.node)
        pre = nodes_where(g, lambda n: isinstance(n.ast, ast.Raise) and n.ast.exc is not None and
                          norm(n.ast.exc) == 'self._error' and g.has_guard(n, 'self._error is None', False),
                          kinds=('stmt',))
        starts = nodes_calling(g, 'start')
        ok = bool(pre) and bool(main) and all(main[0].id in g.reachable_from(p) for p in pre) and \
            all(not (s.id in g.reachable_from(g.entry, avoid=[n for n in g.nodes if n.kind == 'test'
                                                              and norm(n.ast) == 'self._error is not None']))
                for s in starts)
        ck.ob(R2, f"{rf.fid} :: abort before start", ok,
              "a pre-start abort is raised inside the main try before any start() call" if ok else
              "an abort() issued before the start does not make the start fail with that error", rf,
              pre[0].ast if pre else rf.node)
        sd = circ.methods.get('shutdown')
        gs = ck.cfg(sd.fid, 'M1')
        aw = nodes_where(gs, lambda n: any(isinstance(x, ast.Await) and norm(x.value) == 'self._simtask'
                                           for r in [n.ast] for x in walk_shallow(r)))
        hs = [n for n in gs.nodes if n.kind == 'handler' and gs.pred[n.id]]
        ok = len(aw) == 1 and len(hs) == 1 and handler_types(hs[0].ast) == ['CancelledError']
        ab_calls = nodes_calling(gs, 'abort')
        ok2 = len(ab_calls) == 1 and gs.dominates(ab_calls[0], aw[0]) if aw else False
        if ok2:
            a = node_calls(ab_calls[0], 'abort')[0].args[0]
            ok2 = isinstance(a, ast.Call) and norm(a.func).endswith('CancelledError')
        ck.ob(R2, sd.fid, ok and ok2,
              "shutdown(): abort(CancelledError), await the task, absorb only CancelledError" if ok and ok2
              else "shutdown() swallows more than CancelledError or does not stop the simulation with a "
              "CancelledError", sd, sd.node)
        run_reports_first_error(ck, R2)

    with ck.section('R09.3'):
        # ------------------------------------------------------------------ R09.3
        ev = prog.func('block:SBlock.event')
        ge = ck.cfg(ev.fid, 'M1')
        from rules.shared import dispatch_handler_asts
        dh_ = dispatch_handler_asts(ev)
        hs = [n for n in ge.nodes if n.kind == 'handler' and ge.pred[n.id] and (not dh_ or n.ast in dh_)]
        gen = [h for h in hs if handler_types(h.ast) == ['Exception']]
        ck.need(R3, len(gen) == 1, "SBlock.event: generic handler not recognised")
        h = gen[0]
        ok = handler_reraises(ev, h.ast)
        ck.ob(R3, f"{ev.fid} :: generic handler re-raises", ok,
              "a handler error is always re-raised to the caller" if ok else
              "SBlock.event swallows a handler error on some path", ev, h.ast)
        aborts = [n for n in nodes_calling(ge, 'abort') if ge.dominates(h, n)]
        okab = len(aborts) == 1
        if okab:
            arg = node_calls(aborts[0], 'abort')[0].args[0]
            cause = nodes_where(ge, lambda n: isinstance(n.ast, ast.Assign) and
                                norm(n.ast.targets[0]) == f"{norm(arg)}.__cause__" and
                                norm(n.ast.value) == (h.ast.name or ''))
            raises_after = [n for n in ge.nodes if n.kind == 'stmt' and isinstance(n.ast, ast.Raise)
                            and ge.dominates(h, n)]
            def _unk_guarded(n_):
                return any('EdzedUnknownEvent' in t and p_ for t, p_ in ge.guard_texts(n_))
            okab = bool(cause) and ge.dominates(cause[0], aborts[0]) and \
                all(r.id in ge.reachable_from(aborts[0]) or _unk_guarded(r) for r in raises_after) and \
                recv(node_calls(aborts[0], 'abort')[0]) == 'self.circuit'
            # the only guard of the abort inside the handler is the traceback-depth test
            extra = [t for t, p in ge.guard_texts(aborts[0]) - ge.guard_texts(h) if 'tb_next' not in t
                     and not ('EdzedUnknownEvent' in t and not p)]
            okab = okab and not extra
        ck.ob(R3, f"{ev.fid} :: abort before raise", okab,
              "self.circuit.abort(E) with E.__cause__ = err runs inside event(), before the re-raise: "
              "the simulator is told even if a caller catches the exception" if okab else
              "the handler error is not reported to the simulator (abort missing, after the raise, "
              "without cause, or under an extra condition)", ev, aborts[0].ast if aborts else h.ast)
        from rules.shared import unknown_event_not_fatal
        unknown_event_not_fatal(ck, R3)
        from rules.eventrun import event_run_obligations
        event_run_obligations(ck, R3, ('errors', 'params'))
        unk = [x for x in hs if handler_types(x.ast) == ['EdzedUnknownEvent']]
        ok = True
        ck.ob(R3, f"{ev.fid} :: unknown event not fatal (clause order)", ok,
              "EdzedUnknownEvent is caught first and re-raised without abort" if ok else
              "an unknown event type can abort the simulation", ev, unk[0].ast if unk else ev.node)
        tm = prog.func('addons:AddonAsync._task_monitor')
        gt = ck.cfg(tm.fid, 'M1')
        aw = nodes_where(gt, lambda n: any(isinstance(x, ast.Await) for x in walk_shallow(n.ast)))
        ck.need(R3, len(aw) == 1, "_task_monitor: the awaited coroutine was not recognised")
        ab_nodes = nodes_calling(gt, 'abort')
        # every exceptional continuation of kind E reaches abort before leaving
        wit = None
        for v, lab in gt.succ[aw[0].id]:
            vn = gt.nodes[v]
            if lab == 'exc' and vn.kind == 'dispatch' and vn.kinds == {'E'}:
                wit = gt.path_avoiding(vn, [gt.raise_exit, gt.exit], avoid=ab_nodes)
        hs = [n for n in gt.nodes if n.kind == 'handler' and gt.pred[n.id]]
        only_exc = all(handler_types(x.ast) == ['Exception'] for x in hs) and bool(hs)
        rer = all(handler_reraises(tm, x.ast) for x in hs)
        okarg = bool(ab_nodes) and all(norm(node_calls(a, 'abort')[0].args[0]) == (hs[0].ast.name or '')
                                       for a in ab_nodes) if hs else False
        ck.ob(R3, f"{tm.fid} :: abort on every Exception exit", wit is None and only_exc and rer and okarg,
              "any exception of a monitored task is delivered to abort() and re-raised; cancellation "
              "is not treated as an error" if wit is None and only_exc and rer and okarg else
              "an exception of a monitored task can leave _task_monitor without abort(), or "
              "CancelledError is caught", tm, aw[0].ast, witness=path_witness(gt, wit))
        svc = nodes_where(gt, lambda n: isinstance(n.ast, ast.Raise) and gt.has_guard(n, 'is_service', True),
                          kinds=('stmt',))
        ok = bool(svc) and bool(hs) and all(hs[0].id in gt.reachable_from(s) for s in svc)
        ck.ob(R3, f"{tm.fid} :: service must not return", ok,
              "a service task that returns raises inside the same try (reported through abort)" if ok
              else "a returning service task is not reported", tm, svc[0].ast if svc else tm.node)
        callers = sorted({fi.fid for fi, c in call_sites(ck, '_task_monitor')})
        ck.ob(R3, "who calls _task_monitor", callers == ['addons:AddonAsync._create_monitored_task'],
              f"_task_monitor is used by {callers}", tm, tm.node)
        for fid in ('addons:AddonMainTask.start', 'blocklib.sblocks2:OutputAsync.start'):
            fi = prog.func(fid)
            gg = ck.cfg(fid, 'M0')
            raw = nodes_calling(gg, 'create_task') + nodes_calling(gg, 'ensure_future')
            mon = nodes_calling(gg, '_create_monitored_task')
            ok = not raw and len(mon) == 1
            if ok and fid.endswith('AddonMainTask.start'):
                c = node_calls(mon[0], '_create_monitored_task')[0]
                ok = any(k.arg == 'is_service' and is_const(k.value, True) for k in c.keywords)
            ck.ob(R3, f"{fid} :: monitored task", ok,
                  "the block task is created through _create_monitored_task" +
                  (" as a service" if fid.endswith('AddonMainTask.start') else '') if ok else
                  "a block task is created without the monitor (its failure would be silent)", fi, fi.node)
        # NOSWALLOW on the critical path
        for fid in CRITICAL:
            if fid not in prog.funcs:
                ck.ob(R3, f"{fid} :: exists", False, f"critical-path function {fid} not found "
                      "(renamed?)", None, '')
                continue
            fi = prog.func(fid)
            for hh in handlers_in(fi):
                if not catches_broad(hh):
                    continue
                ok = handler_reraises(fi, hh)
                ck.ob(R3, f"{fid} :: except {norm(hh.type) if hh.type is not None else ''}", ok,
                      "re-raises on all paths" if ok else
                      "a handler on the critical path can swallow the exception (the simulator would "
                      "continue after an error)", fi, hh)
        cb = prog.cls('blocklib.sblocks1:ControlBlock')
        for hname, cls_ in (('_event_shutdown', 'CancelledError'), ('_event_abort', 'EdzedCircuitError')):
            fi = cb.methods.get(hname)
            ck.need(R3, fi is not None, f"ControlBlock.{hname} not found")
            gg = ck.cfg(fi.fid, 'M0')
            abn = nodes_calling(gg, 'abort')
            ok = bool(abn) and must_pass(gg, gg.entry, abn, [gg.exit]) is None
            if ok:
                arg = node_calls(abn[0], 'abort')[0].args[0]
                vals = ck.rdefs(fi.fid, 'M0').value_exprs(abn[0], arg.id) if isinstance(arg, ast.Name) else [arg]
                ok = all(isinstance(v, ast.Call) and norm(v.func).endswith(cls_) for v in vals) and bool(vals)
            ck.ob(R3, fi.fid, ok, f"reaches abort({cls_}(...)) on all paths" if ok else
                  f"the control event does not reach abort() with a {cls_}", fi, fi.node)

    with ck.section('R09.4'):
        # ------------------------------------------------------------------ R09.4
        seen_keys = set()
        total = broad = 0
        for fi in prog.pkg_funcs(include_demo=False):
            for hh in handlers_in(fi):
                total += 1
                if not catches_broad(hh):
                    continue
                broad += 1
                if handler_reraises(fi, hh):
                    continue
                key = (fi.fid, norm(hh.type) if hh.type is not None else 'BaseException')
                seen_keys.add(key)
                ok = key in SINK_TABLE
                calls_abort = any(isinstance(x, ast.Call) and call_name(x) == 'abort'
                                  for s in hh.body for x in walk_shallow(s))
                ck.ob(R4, f"{fi.fid} :: except {key[1]} (line-independent)", ok and not calls_abort,
                      f"designated sink: {SINK_TABLE.get(key)}" if ok and not calls_abort else
                      (f"a handler for {key[1]} that does not re-raise exists outside the designated "
                       f"sinks: errors of this code are silently swallowed" if not ok else
                       "a designated non-fatal sink calls abort()"), fi, hh)
        ck.extra['handlers_total'] = total
        ck.extra['handlers_broad'] = broad
        for fid in ('simulator:Circuit._run_tasks', 'simulator:Circuit._stop_sblocks',
                    'addons:AddonPersistence.init_from_persistent_data',
                    'addons:AddonPersistence.save_persistent_state'):
            fi = prog.func(fid)
            bad = [x for x in own_nodes(fi.node) if isinstance(x, ast.Call) and call_name(x) == 'abort']
            bad += [x for x in own_nodes(fi.node) if isinstance(x, ast.Raise) and
                    not (fid.endswith('_run_tasks') and False)]
            ck.ob(R4, f"{fid} :: neither aborts nor raises", not bad,
                  "failures of asynchronous init/clean-up, restore and save are only logged" if not bad
                  else f"{fid} escalates a non-fatal failure ({norm1(bad[0])})", fi,
                  bad[0] if bad else fi.node)


def run_reports_first_error(ck, R2):
    """edzed.run(): the simulation task's error is collected first and a later task error never replaces
    it (shared by C09 R09.2 and C10 R10.8: the 'instability' error is what run() raises)."""
    prog = ck.prog
    run = prog.func('simulator:run')
    gr = ck.cfg(run.fid, 'M1')
    first = nodes_where(gr, lambda n: isinstance(n.ast, ast.Assign) and
                        norm(n.ast.targets[0]) == 'all_tasks')
    ok = len(first) == 1 and isinstance(first[0].ast.value, ast.List) and \
        [norm(e) for e in first[0].ast.value.elts] == ['simtask']
    ck.ob(R2, f"{run.fid} :: simulation task first", ok,
          "all_tasks starts with the simulation task" if ok else
          "the simulation task is not the first task whose error is collected", run,
          first[0].ast if first else run.node)
    coll = [n for n in gr.nodes if n.kind == 'for' and 'all_tasks' in norm(n.ast.iter)
            and 'enumerate' in norm(n.ast.iter)]
    ok = len(coll) == 1 and 'reversed' not in norm(coll[0].ast.iter) and 'sorted' not in norm(coll[0].ast.iter)
    ck.ob(R2, f"{run.fid} :: collection order", ok,
          "errors are collected in task order" if ok else "errors are not collected in task order",
          run, coll[0].ast if coll else run.node)
    keep = nodes_where(gr, lambda n: isinstance(n.ast, ast.Assign) and
                       norm(n.ast.targets[0]) == 'run_error' and not is_const(n.ast.value, None))
    ok = bool(keep) and all(gr.has_guard(k, 'run_error is None', True) for k in keep)
    # the other idiom: every error is appended to a list in collection order and the FIRST item is
    # raised after the loop
    lst = None
    if not keep and coll:
        apps_ = nodes_where(gr, lambda n: any(call_name(c) == 'append' and len(c.args) == 1
                                              for c in node_calls(n)) and gr.dominates(coll[0], n))
        if len(apps_) == 1:
            lst = recv(node_calls(apps_[0], 'append')[0])
            hn = [h for h in gr.nodes if h.kind == 'handler' and gr.pred[h.id] and gr.dominates(h, apps_[0])]
            ok = bool(hn) and norm(node_calls(apps_[0], 'append')[0].args[0]) == (hn[-1].ast.name or '')
    ck.ob(R2, f"{run.fid} :: first error kept", ok,
          "run_error is assigned only while it is None" if ok else
          "a later task error replaces the first one", run, keep[0].ast if keep else run.node)
    fin = nodes_where(gr, lambda n: isinstance(n.ast, ast.Raise) and n.ast.exc is not None and
                      norm(n.ast.exc) == 'run_error' and gr.has_guard(n, 'run_error is None', False),
                      kinds=('stmt',))
    inner_h = [n for n in gr.nodes if n.kind == 'handler' and gr.pred[n.id]
               and coll and gr.dominates(coll[0], n)]
    types = sorted(t for h in inner_h for t in handler_types(h.ast))
    if not fin and lst:
        fin = nodes_where(gr, lambda n: isinstance(n.ast, ast.Raise) and n.ast.exc is not None and
                          norm(n.ast.exc) == f'{lst}[0]' and gr.has_guard(n, lst, True), kinds=('stmt',))
    ok = bool(fin) and types == ['CancelledError', 'Exception']
    ck.ob(R2, f"{run.fid} :: result", ok,
          "cancellations are absorbed, the first error is raised after the loop, else None" if ok
          else "run() does not raise the collected error / does not absorb cancellation", run,
          fin[0].ast if fin else run.node)

