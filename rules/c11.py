"""C11 -- A block never handles two events at the same time."""
from __future__ import annotations

import ast

from sa.loader import recv, norm, norm1, walk_shallow, own_nodes, call_name, is_super_call
from sa.rulekit import (nodes_calling, node_calls, nodes_where, return_nodes, own, is_const,
                        nodes_writing_attr, must_pass, written_value, effect_nodes,
                        effect_free_to, superchain, call_sites, check_must_pass, expr_is)
from sa.report import path_witness

UNDECIDED = [
    "enumeration of event topologies: that every event loop of any length is refused follows "
    "from R11.1-R11.5 together with synchronous delivery (C02 R02.3), but that theorem is argued "
    "in DESIGN.md, not machine-checked",
]

# who may lift the guard: (function id, callee of the single body statement)
LIFT_TABLE = {
    ('block:SBlock.event', 'init_sblock'): "initialisation of a block by an event",
    ('fsm:FSM._ctx_event', '_run_cb'): "chained transition requested by an entry action",
    ('fsm:FSM._ctx_event', '_start_timer'): "zero-length timer",
}
# direct uses of an event handler on self, bypassing event()
DIRECT_HANDLER_TABLE = {
    ('block:SBlock.event', '_event'): "the dispatcher itself",
    ('blocklib.sblocks2:OutputAsync.stop', '_event_put'): "own stop_data at stop",
    ('blocklib.sblocks2:OutputFunc.stop', '_event_put'): "own stop_data at stop",
    ('blocklib.timedate:TimeDate.init_from_value', '_event_reconfig'): "own initialisation",
    ('blocklib.timedate:TimeSpan.init_from_value', '_event_reconfig'): "own initialisation",
}


# event deliveries (transitively, by callee name) that may sit inside a `try` whose handler can
# catch EdzedCircuitError without re-raising: (function, handler type, callee name) -> reason
SWALLOW_TABLE = {
    ('addons:AddonPersistence.init_from_persistent_data', 'Exception', '_restore_state'):
        "documented fall-back: a failed restore is logged and the next init source is used; a "
        "refusal met on the way has already passed the refused chain's dispatchers",
    ('simulator:Circuit._stop_sblocks', 'Exception', 'stop'):
        "documented error isolation of stop() after the simulation has ended",
    ('simulator:Circuit.run_forever', '(Exception, asyncio.CancelledError)', '*'):
        "the designated sink: records the error that stops the simulation",
}
DELIVER0 = ('send', 'event', '_send_events', 'set_output', 'put')


def _may_deliver(prog):
    """Names of package functions that (transitively, resolved by callee name = an
    over-approximation) deliver an event."""
    names = set(DELIVER0)
    funcs = list(prog.pkg_funcs(include_demo=False))
    changed = True
    while changed:
        changed = False
        for f in funcs:
            if f.node.name in names:
                continue
            if any(isinstance(x, ast.Call) and call_name(x) in names for x in own_nodes(f.node)):
                names.add(f.node.name)
                changed = True
    return names


def run(ck):
    ck.explanation = (
        "SBlock.event (edzed/block.py): under the strongest fault model M2 (every call, subscript, "
        "attribute load on a foreign object, binary operation or assert may raise) every path from "
        "the acquire `self._event_active = True` to any exit, normal or exceptional, passes the "
        "release; the refusal test precedes the acquire and its raise touches no flag; the flag "
        "has four permitted writers; the context manager restores the saved value; the guard is "
        "lifted at exactly the three documented sites; the FSM-level flag is paired the same way; "
        "every route into a handler goes through event() except four own-handler uses on self.")
    ck.undecided = UNDECIDED
    prog = ck.prog
    sblock = prog.cls('block:SBlock')
    ev = sblock.methods.get('event')
    ck.need('R11.1', ev is not None, "SBlock.event not found")

    R1 = ck.rule('R11.1', "every path (M2: anything may raise) from the acquire "
                 "`_event_active = True` to any exit passes the release `_event_active = False`",
                 'M2', 2)
    R2 = ck.rule('R11.2', "the recursion test raises EdzedCircuitError, precedes the acquire and "
                 "its raise writes no flag (a refused inner call cannot unlock the outer one)",
                 'M2', 3)
    R3 = ck.rule('R11.3', "_event_active has exactly four writers; _enable_event saves before it "
                 "clears and restores the saved value on exit without suppressing exceptions; "
                 "the guard is lifted only at the three documented sites", 'M0', 10)
    R4 = ck.rule('R11.4', "FSM: _fsm_event_active is paired on all exits (M2); a re-entrant "
                 "request is stored in the single slot or raises; cond/exit callbacks run with "
                 "the event guard in place", 'M2', 5)
    R5 = ck.rule('R11.5', "every route into an event handler passes event(): handlers are called "
                 "directly only by the dispatcher and by four own-handler uses on self; event() "
                 "is overridden only by AddonPersistence, which calls super().event exactly once",
                 'M0', 8)
    R7 = ck.rule('R11.7', "a refusal reaches a dispatcher: no call that (transitively) delivers an "
                 "event sits in a `try` whose handler catches EdzedCircuitError without "
                 "re-raising, except the three enumerated designated sinks", 'M0', 3)
    R8 = ck.rule('R11.8', "abstract run of SBlock.event (23 scenarios: kind of event type x 'value' item x guard "
                 "on entry x initialisation progress x handler outcome): a recursive event is refused and "
                 "leaves the outer guard set; the guard is set while a handler runs and released after every "
                 "outcome; a conditional event resolves by the truth value of 'value' (missing = false) and "
                 "'no event' neither locks nor initialises; the initialising event is let through", 'M0', 4)
    R6 = ck.rule('R11.6', "non-events neither lock nor stop: unknown-event errors are re-raised "
                 "without abort; FSM raises EdzedUnknownEvent before any effect", 'M0', 3)

    with ck.section('R11.1'):
        # ------------------------------------------------------------------ R11.1
        g2 = ck.cfg(ev.fid, 'M2')
        writes = nodes_writing_attr(g2, '_event_active')
        acq = [w for w in writes if is_const(written_value(w, '_event_active'), True)]
        rel = [w for w in writes if is_const(written_value(w, '_event_active'), False)]
        other = [w for w in writes if w not in acq and w not in rel]
        ck.ob(R1, f"{ev.fid} :: acquire/release literals", len(acq) == 1 and bool(rel) and not other,
              f"{len(acq)} acquire, {len(rel)} release node(s) (incl. finally copies), "
              f"{len(other)} other writes", ev, acq[0].ast if acq else ev.node)
        ck.need(R1, acq, "SBlock.event: acquire `self._event_active = True` not found")
        a = acq[0]
        check_must_pass(ck, R1, f"{ev.fid} :: release on all exits", ev, g2, a, rel,
                        [g2.exit, g2.raise_exit], "release of the event guard")

        # the guard is held while the handler runs: no release can be followed by the dispatch
        disp = nodes_where(g2, lambda n: any(
            (call_name(c) == '_event' and recv(c) == 'self') or
            (isinstance(c.func, ast.Name) and c.func.id == 'handler') for c in node_calls(n)))
        ck.need(R1, disp, "SBlock.event: the handler dispatch (handler(self, **data) / self._event) "
                "was not recognised")
        wit = None
        for r in rel:
            for d in disp:
                if d.id in g2.reachable_from(r):
                    wit = g2.path_avoiding(r, [d], avoid=acq)
                    if wit is not None:
                        break
            if wit is not None:
                break
        ck.ob(R1, f"{ev.fid} :: guard held during the dispatch", wit is None,
              "no `_event_active = False` can precede the handler call: the handler always runs with "
              "the guard set (temporary lifts restore it)" if wit is None else
              "the guard is cleared on a path that continues to the handler call: the handler runs "
              "unguarded and a looped-back event is not refused", ev, (wit[0].ast if wit and wit[0].ast
                                                                      is not None else ev.node),
              witness=path_witness(g2, wit))

    with ck.section('R11.2'):
        # ------------------------------------------------------------------ R11.2
        refusal = nodes_where(g2, lambda n: isinstance(n.ast, ast.Raise)
                              and g2.has_guard(n, 'self._event_active', True), kinds=('stmt',))
        ok = bool(refusal) and all(r.kinds == {'N:EdzedCircuitError'} for r in refusal)
        ck.ob(R2, f"{ev.fid} :: refusal", ok,
              "a second event during handling raises EdzedCircuitError" if ok else
              "no `raise EdzedCircuitError` under `self._event_active`", ev,
              refusal[0].ast if refusal else ev.node)
        ok = g2.has_guard(a, 'self._event_active', False)
        ck.ob(R2, f"{ev.fid} :: test precedes acquire", ok,
              "the acquire is dominated by the failed recursion test" if ok else
              "the flag is acquired without (or before) testing it", ev, a.ast)
        for r in refusal:
            bad = None
            for w in writes:
                if w.id in g2.reachable_from(r):
                    bad = g2.path_avoiding(r, [w])
            ck.ob(R2, f"{ev.fid} :: refusal leaves the flag alone", bad is None,
                  "the refusing raise reaches the exit without writing _event_active" if bad is None
                  else "the refusal passes through a write of _event_active (it would unlock the "
                  "outer, still running, handler)", ev, r.ast, witness=path_witness(g2, bad))

    with ck.section('R11.3'):
        # ------------------------------------------------------------------ R11.3
        ee = prog.classes.get('block:SBlock._enable_event')
        if ee is None:
            # the same context manager written without the "@property class" trick:
            # `class _X: ...` + `_enable_event = property(_X)` in the body of SBlock
            for st_ in sblock.node.body:
                if isinstance(st_, ast.Assign) and any(norm(t) == '_enable_event' for t in st_.targets) and \
                        isinstance(st_.value, ast.Call) and norm(st_.value.func) == 'property' and \
                        len(st_.value.args) == 1 and isinstance(st_.value.args[0], ast.Name):
                    ee = prog.classes.get(f'block:SBlock.{st_.value.args[0].id}')
        ck.need(R3, ee is not None, "SBlock._enable_event not found")
        enter, exit_ = ee.methods.get('__enter__'), ee.methods.get('__exit__')
        ck.need(R3, enter is not None and exit_ is not None, "_enable_event.__enter__/__exit__ missing")
        init = sblock.methods.get('__init__')
        table = {init.fid: 'initial value False', ev.fid: 'acquire/release',
                 enter.fid: 'temporarily cleared', exit_.fid: 'saved value restored'}
        own(ck, R3, '_event_active', table)
        ge = ck.cfg(enter.fid, 'M0')
        saves = nodes_where(ge, lambda n: isinstance(n.ast, ast.Assign) and
                            norm(n.ast.value).endswith('._event_active'))
        clears = nodes_writing_attr(ge, '_event_active', base=None)
        ok = len(saves) == 1 and len(clears) == 1 and ge.dominates(saves[0], clears[0]) and \
            is_const(written_value(clears[0], '_event_active'), False)
        saved_attr = norm(saves[0].ast.targets[0]) if saves else None
        ck.ob(R3, f"{enter.fid} :: save then clear", ok,
              f"{saved_attr} = <block>._event_active, then cleared" if ok else
              "__enter__ does not save the flag before clearing it", enter, enter.node)
        gx = ck.cfg(exit_.fid, 'M0')
        restores = nodes_writing_attr(gx, '_event_active', base=None)
        ok = len(restores) == 1 and saved_attr is not None and \
            expr_is(ck, exit_.fid, 'M0', restores[0], written_value(restores[0], '_event_active'),
                    saved_attr) and \
            must_pass(gx, gx.entry, restores, [gx.exit]) is None
        rets = return_nodes(gx)
        ok = ok and all(r.ast.value is None or is_const(r.ast.value, None) or is_const(r.ast.value, False)
                        for r in rets)
        ck.ob(R3, f"{exit_.fid} :: restore", ok,
              "__exit__ restores the saved value on all paths and does not suppress exceptions" if ok
              else "__exit__ does not write back the value saved by __enter__ (or returns a true value)",
              exit_, exit_.node)
        n_sites = 0
        for fi in prog.pkg_funcs(include_demo=True):
            for n in own_nodes(fi.node):
                if isinstance(n, (ast.With, ast.AsyncWith)) and any(
                        isinstance(it.context_expr, ast.Attribute) and it.context_expr.attr == '_enable_event'
                        or '_enable_event' in norm(it.context_expr) for it in n.items):
                    n_sites += 1
                    wbody = n.body
                    # the single permitted call may be wrapped in a try whose handlers only report the error
                    # and re-raise it (no event can be delivered from there: abort() delivers nothing)
                    if len(wbody) == 1 and isinstance(wbody[0], ast.Try) and not wbody[0].orelse and \
                            not wbody[0].finalbody and all(
                                h.body and isinstance(h.body[-1], ast.Raise) and h.body[-1].exc is None and all(
                                    isinstance(s_, ast.Expr) and isinstance(s_.value, ast.Call) and
                                    call_name(s_.value) in ('abort', 'log_debug', 'log_warning', 'log_error')
                                    for s_ in h.body[:-1]) for h in wbody[0].handlers):
                        wbody = wbody[0].body
                    body_calls = [call_name(s.value) for s in wbody
                                  if isinstance(s, ast.Expr) and isinstance(s.value, ast.Call)]
                    single = len(wbody) == 1 and len(body_calls) == 1
                    key = (fi.fid, body_calls[0] if body_calls else None)
                    ok = single and key in LIFT_TABLE and norm(n.items[0].context_expr) == 'self._enable_event'
                    if ok and key[1] == '_run_cb':
                        c = wbody[0].value
                        ok = bool(c.args) and is_const(c.args[0], 'enter')
                    ck.ob(R3, f"{fi.fid} :: with _enable_event: {norm1(wbody[0]) if wbody else ''}", ok,
                          f"documented exception: {LIFT_TABLE.get(key)}" if ok else
                          "the recursion guard is lifted at a site that is not one of the three "
                          "documented exceptions (or around more than the single permitted call)",
                          fi, n)
        ck.need(R3, n_sites >= 1, "no `with self._enable_event` site found")

    with ck.section('R11.0'):
        from rules.fsmrun import fsm_run_obligations
        fsm_run_obligations(ck, R4, ('guard', 'chain'))

    with ck.section('R11.4', backed_by='FSM._ctx_event', prefix='fsm:FSM._ctx_event'):
        # ------------------------------------------------------------------ R11.4
        fsm = prog.cls('fsm:FSM')
        ctx = fsm.methods.get('_ctx_event')
        ck.need(R4, ctx is not None, "FSM._ctx_event not found")
        gf = ck.cfg(ctx.fid, 'M2')
        fw = nodes_writing_attr(gf, '_fsm_event_active')
        facq = [w for w in fw if is_const(written_value(w, '_fsm_event_active'), True)]
        frel = [w for w in fw if is_const(written_value(w, '_fsm_event_active'), False)]
        ck.need(R4, len(facq) == 1, "FSM._ctx_event: acquire of _fsm_event_active not found")
        check_must_pass(ck, R4, f"{ctx.fid} :: release on all exits", ctx, gf, facq[0], frel,
                        [gf.exit, gf.raise_exit], "release of the FSM event flag")
        ok = gf.has_guard(facq[0], 'self._fsm_event_active', False)
        ck.ob(R4, f"{ctx.fid} :: acquire only when free", ok,
              "the FSM flag is acquired only when it was clear" if ok else
              "the FSM flag is acquired although it may be set", ctx, facq[0].ast)
        g0 = ck.cfg(ctx.fid, 'M0')
        slot_w = [w for w in nodes_writing_attr(g0, '_next_event')
                  if not is_const(written_value(w, '_next_event'), None)]
        ok = bool(slot_w) and all(g0.has_guard(w, 'self._fsm_event_active', True) and
                                  g0.has_guard(w, 'self._next_event is not None', False) for w in slot_w)
        over = nodes_where(g0, lambda n: isinstance(n.ast, ast.Raise) and n.kinds == {'N:EdzedCircuitError'}
                           and g0.has_guard(n, 'self._next_event is not None', True)
                           and g0.has_guard(n, 'self._fsm_event_active', True), kinds=('stmt',))
        ck.ob(R4, f"{ctx.fid} :: single slot", ok and bool(over),
              "a chained request is stored only while handling and only into an empty slot; a second "
              "one raises" if ok and over else
              "the chained-transition slot can be overwritten, or a second request does not raise",
              ctx, slot_w[0].ast if slot_w else ctx.node)
        own(ck, R4, '_fsm_event_active', {fsm.methods['__init__'].fid: 'initial False',
                                          ctx.fid: 'acquire/release'})
        # cond/exit callbacks outside _enable_event
        bad = []
        for n in own_nodes(ctx.node):
            if isinstance(n, (ast.With,)) and '_enable_event' in norm(n.items[0].context_expr):
                for c in [x for s in n.body for x in walk_shallow(s) if isinstance(x, ast.Call)]:
                    if call_name(c) == '_run_cb' and c.args and not is_const(c.args[0], 'enter'):
                        bad.append(c)
                    if call_name(c) in ('_send_events', 'set_output', 'calc_output'):
                        bad.append(c)
        ck.ob(R4, f"{ctx.fid} :: callbacks under the guard", not bad,
              "only entry actions and the timer start run with the guard lifted" if not bad else
              f"{[norm(b) for b in bad]} run(s) with the recursion guard lifted", ctx,
              bad[0] if bad else ctx.node)

    with ck.section('R11.5'):
        # ------------------------------------------------------------------ R11.5
        n = 0
        for fi in prog.pkg_funcs():
            for c in [x for x in own_nodes(fi.node) if isinstance(x, ast.Call)]:
                cn = call_name(c)
                if cn is None or not (cn == '_event' or cn.startswith('_event_')):
                    continue
                if not isinstance(c.func, ast.Attribute):
                    continue
                n += 1
                key = (fi.fid, cn)
                ok = key in DIRECT_HANDLER_TABLE and recv(c) == 'self'
                ck.ob(R5, f"{fi.fid} :: {norm(c.func)}()", ok,
                      f"permitted direct use: {DIRECT_HANDLER_TABLE.get(key)}" if ok else
                      f"`{norm(c.func)}(...)` calls an event handler directly, bypassing the "
                      f"recursion guard of event()", fi, c)
        ck.need(R5, n >= 3, "fewer direct handler uses than confirmed by hand")
        # dispatch through the handler table happens inside SBlock.event only
        for fi in prog.pkg_funcs():
            for x in own_nodes(fi.node):
                if isinstance(x, ast.Attribute) and x.attr == '_ct_handlers' and isinstance(x.ctx, ast.Load):
                    ok = fi.fid in (ev.fid, 'block:SBlock.__init_subclass__', 'fsm:FSM._build_tables')
                    ck.ob(R5, f"{fi.fid} :: reads _ct_handlers", ok,
                          "handler table used by the dispatcher / table builders only" if ok else
                          "the handler table is read outside the dispatcher (possible bypass)", fi, x)
        definers = sorted(c.qual for c in prog.pkg_classes() if 'event' in c.methods)
        ok = definers == ['addons:AddonPersistence', 'block:SBlock']
        ck.ob(R5, "classes defining event()", ok, f"event() is defined by {definers}", None,
              f"{sblock.module.path}:{sblock.node.lineno}")
        superchain(ck, R5, 'event', classes={'addons:AddonPersistence'})
        for fid, _rcv in (('block:Event.send', None), ('block:ExtEvent.send', 'self._dest')):
            fi = prog.func(fid)
            g = ck.cfg(fid, 'M0')
            d = nodes_calling(g, 'event')
            ok = len(d) == 1
            ck.ob(R5, f"{fid} :: delivery", ok,
                  "delivers through <dest>.event(...) exactly once" if ok else
                  f"{len(d)} delivery call(s) through event()", fi, fi.node)

    with ck.section('R11.6', backed_by='FSM._ctx_event', prefix='fsm:FSM._ctx_event'):
        # ------------------------------------------------------------------ R11.6
        g0 = ck.cfg(ev.fid, 'M1')
        hs = [n for n in g0.nodes if n.kind == 'handler' and g0.pred[n.id]]
        unk = [h for h in hs if norm(h.ast.type) == 'EdzedUnknownEvent']
        ok = len(unk) == 1 and len(unk[0].ast.body) == 1 and isinstance(unk[0].ast.body[0], ast.Raise) \
            and unk[0].ast.body[0].exc is None
        gen = [h for h in hs if norm(h.ast.type) == 'Exception']
        ok = ok and bool(gen) and unk[0].ast.lineno < gen[0].ast.lineno
        from rules.shared import unknown_event_not_fatal
        unknown_event_not_fatal(ck, R6, 'unknown event')
        gc = ck.cfg(ctx.fid, 'M0')
        unk_r = nodes_where(gc, lambda n: isinstance(n.ast, ast.Raise) and
                            n.kinds == {'N:EdzedUnknownEvent'}, kinds=('stmt',))
        forbidden = effect_nodes(gc, attrs_written=('_state', '_next_event', '_active_timer', 'sdata',
                                                    '_fsm_event_active'),
                                 calls=('_run_cb', '_send_events', '_stop_timer', '_start_timer',
                                        'set_output', 'send'))
        ck.need(R6, unk_r, "FSM._ctx_event does not raise EdzedUnknownEvent")
        effect_free_to(ck, R6, f"{ctx.fid} :: unknown event has no effect", ctx, gc, unk_r, forbidden,
                       "an unknown FSM event is refused before any effect")
        rep = prog.func('blocklib.sblocks1:Repeat._event')
        gr = ck.cfg(rep.fid, 'M0')
        foreign = [r for r in return_nodes(gr) if any('etype' in t and p for t, p in gr.guard_texts(r))]
        forb = effect_nodes(gr, calls=('set_output', 'send', 'put_nowait'))
        if foreign:
            effect_free_to(ck, R6, f"{rep.fid} :: foreign type ignored", rep, gr, foreign, forb,
                           "Repeat ignores other event types without effect")

    with ck.section('R11.7'):
        # ------------------------------------------------------------------ R11.7
        from sa.cfg import handler_types
        from sa.rulekit import handler_reraises
        deliver = _may_deliver(prog)
        ck.need(R7, {'_send_events', 'set_output', 'event', 'send'} <= deliver and '_restore_state' in deliver
                and 'stop' in deliver, "may-deliver closure lost its known members")
        n7 = 0
        CATCHES = ('Exception', 'BaseException', 'EdzedError', 'EdzedCircuitError')
        for fi in prog.pkg_funcs(include_demo=False):
            for t in own_nodes(fi.node):
                if not isinstance(t, ast.Try):
                    continue
                for h in t.handlers:
                    if h.type is not None and not any(x in CATCHES for x in handler_types(h)):
                        continue
                    if handler_reraises(fi, h):
                        continue
                    names = {}
                    for st in t.body:
                        for x in ast.walk(st):
                            if isinstance(x, ast.Call) and call_name(x) in deliver:
                                names.setdefault(call_name(x), x)
                    ht = norm(h.type) if h.type is not None else 'bare'
                    for nm, call in sorted(names.items()):
                        n7 += 1
                        ok = (fi.fid, ht, nm) in SWALLOW_TABLE or (fi.fid, ht, '*') in SWALLOW_TABLE
                        ck.ob(R7, f"{fi.fid} :: except {ht} around {nm}()", ok,
                              f"designated: {SWALLOW_TABLE.get((fi.fid, ht, nm)) or SWALLOW_TABLE.get((fi.fid, ht, '*'))}"
                              if ok else
                              f"`{norm1(call)}` may deliver an event inside a try whose `except {ht}` "
                              f"does not re-raise: the EdzedCircuitError of a refused (looped-back) "
                              f"event is swallowed here and never stops the simulation", fi, call)
        ck.need(R7, n7 >= 3, f"only {n7} swallowing-handler/delivery pairs found (3 confirmed by hand)")

    with ck.section('R11.8'):
        # ------------------------------------------------------------------ R11.8
        from rules.eventrun import event_run_obligations
        ck.need(R8, event_run_obligations(ck, R8, ('refuse', 'unlock', 'cond', 'dispatch', 'init')),
                "SBlock.event could not be interpreted")
