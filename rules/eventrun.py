"""Abstract run of SBlock.event (shared by C05, C09, C11).

The dispatcher every event passes through is interpreted by sa/minieval.py on a small block (handlers
`_event_a` / `_event_b` in the class table, everything else through `_event`) in scenarios that cover the
finite case split the function makes: kind of the event type (empty string, string, EventType that is not
a string, nested EventCond, something else) x the 'value' item of a conditional event (truthy, falsy,
missing) x the guard flag on entry x initialisation progress (0, 1, 2 steps) x the outcome of the handler
(returns, EdzedUnknownEvent, an error raised inside the handler, an error of the call itself).  All
collaborators are recording stand-ins; the stand-in for `Circuit.init_sblock` re-enters the interpreted
function (initialisation of a block by an event), so the guard and its window are the code's own.
Nothing of edzed is imported or executed.
"""
from __future__ import annotations

from sa.loader import AnalysisError
from sa.minieval import MiniEval, Obj, ModuleGlobals

EV = 'block:SBlock.event'


class EventTypeStub(Obj):
    def __init__(self, name='EventType()'):
        super().__init__(name, {}, {})


class EventCondStub(EventTypeStub):
    def __init__(self, etrue, efalse):
        Obj.__init__(self, f'EventCond({etrue!r}, {efalse!r})', {}, {'etrue': etrue, 'efalse': efalse})


class _HandlerError(Exception):
    """A failure of a stand-in; `depth` is the number of traceback levels the interpreted code sees."""
    def __init__(self, name, depth):
        super().__init__(name)
        tb = None
        for _ in range(depth):
            tb = Obj('traceback', {}, {'tb_next': tb})
        self.mini_obj = Obj(name, {}, {'__traceback__': tb})


class RuntimeErrorInHandler(_HandlerError):
    pass


class TypeErrorOfTheCall(_HandlerError):
    pass


class EdzedUnknownEvent(_HandlerError):
    pass


class InitFailed(_HandlerError):
    pass


def _scenarios():
    C = EventCondStub
    S = []

    def add(label, aspects, etype, data, want, *, active=False, steps=2, handler='ok', trace=None):
        S.append(dict(label=label, aspects=aspects, etype=etype, data=data, want=want, active=active,
                      steps=steps, handler=handler, trace=trace))
    add("event with a handler in the class table", ('dispatch',), 'a', {'value': 1, 'k': 2},
        ('return', 'RET-a'), trace=[('H', 'a', {'value': 1, 'k': 2})])
    add("event without a handler goes to _event", ('dispatch',), 'zz', {'k': 2},
        ('return', 'RET-_event'), trace=[('E', 'zz', {'k': 2})])
    add("event type that is an EventType object goes to _event", ('dispatch',), EventTypeStub(), {},
        ('return', 'RET-_event'), trace=[('E', '<EventType()>', {})])
    add("empty event name", ('params',), '', {}, ('raise', 'ValueError'), trace=[])
    add("event type of a wrong kind", ('params',), 5, {}, ('raise', 'TypeError'), trace=[])
    add("event during the handling of another one", ('refuse',), 'a', {}, ('raise', 'EdzedCircuitError'),
        active=True, trace=[])
    add("conditional event, value truthy", ('cond',), C('a', 'b'), {'value': 7}, ('return', 'RET-a'),
        trace=[('H', 'a', {'value': 7})])
    add("conditional event, value falsy", ('cond',), C('a', 'b'), {'value': 0}, ('return', 'RET-b'),
        trace=[('H', 'b', {'value': 0})])
    add("conditional event, value missing counts as false", ('cond',), C('a', 'b'), {'k': 1},
        ('return', 'RET-b'), trace=[('H', 'b', {'k': 1})])
    add("conditional event resolving to no event (true side)", ('cond', 'unlock'), C(None, 'b'), {'value': 1},
        ('return', None), trace=[])
    add("conditional event resolving to no event (value missing)", ('cond', 'unlock'), C('a', None), {},
        ('return', None), trace=[])
    add("nested conditional event", ('cond',), C(C('zz', 'b'), 'a'), {'value': True}, ('return', 'RET-_event'),
        trace=[('E', 'zz', {'value': True})])
    add("nested conditional event, false side", ('cond',), C('a', C('a', 'b')), {'value': ''}, ('return', 'RET-b'),
        trace=[('H', 'b', {'value': ''})])
    add("event to a block that has not started its initialisation", ('init',), 'a', {'value': 1},
        ('return', 'RET-a'), steps=0, trace=[('INIT', True, 'window-open'), ('H', 'a', {'value': 1})])
    add("event to a block in the middle of its initialisation", ('init',), 'a', {'value': 1},
        ('return', 'RET-a'), steps=1, trace=[('INIT', True, 'window-open'), ('H', 'a', {'value': 1})])
    add("event to a block outside a simulation (no initialisation step yet)", ('init',), 'a', {},
        ('return', 'RET-a'), steps=-1, trace=[('H', 'a', {})])
    add("initialisation by an event: the initialising event is accepted", ('init', 'refuse'), 'a', {'value': 1},
        ('return', 'RET-a'), steps=0, handler='ok-reenter',
        trace=[('INIT', True, 'window-open'), ('H', 'b', {'value': 'init'}), ('nested', 'RET-b'),
               ('H', 'a', {'value': 1})])
    add("no-event conditional to an uninitialised block does not initialise it", ('cond', 'init'), C(None, None),
        {'value': 1}, ('return', None), steps=0, trace=[])
    add("the early initialisation fails: the simulator is told although the sender may catch the error",
        ('init', 'errors', 'unlock'), 'a', {'value': 1}, ('fault', 'InitFailed'), steps=0, handler='init-fails',
        trace=[('INIT', True, 'window-open'), ('ABORT', 'InitFailed', None)])
    add("handler reports an unknown event", ('errors', 'unlock'), 'a', {}, ('fault', 'EdzedUnknownEvent'),
        handler='unknown', trace=[('H', 'a', {})])
    add("error raised inside the handler", ('errors', 'unlock'), 'a', {'value': 3}, ('fault', 'RuntimeErrorInHandler'),
        handler='inside', trace=[('H', 'a', {'value': 3}), ('ABORT', 'EdzedCircuitError', '<RuntimeErrorInHandler>')])
    add("error raised inside _event", ('errors', 'unlock'), 'zz', {}, ('fault', 'RuntimeErrorInHandler'),
        handler='inside', trace=[('E', 'zz', {}), ('ABORT', 'EdzedCircuitError', '<RuntimeErrorInHandler>')])
    add("the call of the handler itself fails (wrong parameters)", ('errors', 'unlock'), 'a', {'bogus': 1},
        ('fault', 'TypeErrorOfTheCall'), handler='call', trace=[('H', 'a', {'bogus': 1})])
    return S


def sblock_event_run(ck):
    if getattr(ck, '_sblock_event_run', None) is not None:
        return ck._sblock_event_run
    prog = ck.prog
    res = {'applicable': False, 'why': '', 'bad': {}, 'cases': 0}
    bad = {k: [] for k in ('dispatch', 'params', 'refuse', 'cond', 'unlock', 'init', 'errors')}
    try:
        fi = prog.func(EV)
        a = fi.node.args
        pos = [x.arg for x in a.posonlyargs + a.args]
        if len(pos) != 2 or a.kwarg is None or a.vararg or a.kwonlyargs:
            raise AnalysisError('event run', 'unexpected signature of SBlock.event')
        p_et, p_data = pos[1], a.kwarg.arg
        sb = prog.cls('block:SBlock')
        STUBBED = {'_event', 'log_debug', 'log_warning', 'log_error', 'event'}

        def resolve(text):
            if text.startswith('self.') and text[5:].isidentifier() and text[5:] not in STUBBED:
                f_ = prog.resolve_method(sb, text[5:])
                if f_ is not None and f_.cls is sb and not prog.is_dummy(f_):
                    return f_.node
            return None
        for sc in _scenarios():
            T = []
            mode = sc['handler']
            holder = {}

            def fail_or(ret):
                if mode == 'unknown':
                    raise EdzedUnknownEvent('EdzedUnknownEvent', 2)
                if mode == 'inside':
                    raise RuntimeErrorInHandler('RuntimeErrorInHandler', 2)
                if mode == 'call':
                    raise TypeErrorOfTheCall('TypeErrorOfTheCall', 1)
                return ret

            def mk_handler(name):
                def handler(self_, *extra, **data):
                    if extra:       # the call itself fails: one traceback level
                        T.append(('H!', name, 'positional arguments'))
                        raise TypeErrorOfTheCall('TypeErrorOfTheCall', 1)
                    T.append(('H', name, dict(data), holder['me'].env.get('self._event_active')))
                    return fail_or(f'RET-{name}')
                return handler

            def generic(et, data):
                T.append(('E', et if isinstance(et, str) else repr(et), dict(data),
                          holder['me'].env.get('self._event_active')))
                return fail_or('RET-_event')

            def run_event(me_, et, data):
                env2 = dict(me_.env)
                env2[p_et] = et
                env2[p_data] = dict(data)
                child = MiniEval('SBlock.event run', env2, resolve, me_.depth + 1, me_.globals)
                saved, holder['me'] = holder['me'], child
                try:
                    out = child.run(fi.node.body)
                finally:
                    holder['me'] = saved
                for k, v in child.env.items():
                    if not k.isidentifier():
                        me_.env[k] = v
                return out

            def init_sblock(blk, full=False, **kw):
                me_ = holder['me']
                T.append(('INIT', full, 'window-open' if me_.env.get('self._event_active') is False
                          else 'window-closed'))
                if mode == 'init-fails':
                    me_.env['self.init_steps_completed'] = -2
                    raise InitFailed('InitFailed', 3)
                me_.env['self.init_steps_completed'] = 2
                if mode == 'ok-reenter':
                    out = run_event(me_, 'b', {'value': 'init'})
                    T.append(('nested', out[1] if out[0] == 'return' else out))

            def abort(err):
                me_ = holder['me']
                cause = me_.env.get(f"{_name_of(me_, err)}.__cause__") if _name_of(me_, err) else None
                T.append(('ABORT', getattr(err, 'name', repr(err)), repr(cause) if cause is not None else None))

            def _name_of(me_, obj):
                for k, v in me_.env.items():
                    if v is obj and k.isidentifier():
                        return k
                return None

            saved_flag = []

            def en():
                me_ = holder['me']
                saved_flag.append(me_.env.get('self._event_active'))
                me_.env['self._event_active'] = False

            def ex():
                holder['me'].env['self._event_active'] = saved_flag.pop()
            env = {
                'self': 'SELF', p_et: sc['etype'], p_data: dict(sc['data']),
                'EventCond': EventCondStub, 'EventType': EventTypeStub,
                'EdzedCircuitError': lambda *a_: Obj('EdzedCircuitError'),
                'type(self)._ct_handlers': {'a': mk_handler('a'), 'b': mk_handler('b')},
                'self._ct_handlers': {'a': mk_handler('a'), 'b': mk_handler('b')},
                'self._event': generic,
                'self._event_active': sc['active'],
                'self.init_steps_completed': sc['steps'],
                'self.circuit.init_sblock': init_sblock,
                'self.circuit.abort': abort,
                'self._enable_event': Obj('enable_event', {'__enter__': en, '__exit__': ex}),
            }
            glob = ModuleGlobals(prog, fi.module, {'EventCond': EventCondStub, 'EventType': EventTypeStub})
            me = MiniEval('SBlock.event run', env, resolve, globals_=glob)
            holder['me'] = me
            out = me.run(fi.node.body)
            res['cases'] += 1
            label = sc['label']
            want = sc['want']
            msgs = []
            if want[0] == 'return':
                ok = out == want
            else:
                ok = out[0] in ('raise', 'fault') and want[1] in str(out[1])
            if not ok:
                msgs.append(f"ends with {out}, documented {want}")
            # handlers run with the guard set
            for t in T:
                if t[0] in ('H', 'E') and t[-1] is not True:
                    msgs.append(f"the handler runs with _event_active = {t[-1]!r}: a recursive event would not be refused")
            core = [t[:-1] if t[0] in ('H', 'E') else t for t in T]
            if ok and sc['trace'] is not None and core != sc['trace']:
                i = next((k for k, (x, y) in enumerate(zip(core, sc['trace'])) if x != y),
                         min(len(core), len(sc['trace'])))
                msgs.append(f"step {i + 1}: code does {core[i] if i < len(core) else 'nothing more'}, documented "
                            f"{sc['trace'][i] if i < len(sc['trace']) else 'nothing more'} (trace {core})")
            # the guard after the call: unchanged for a refused / mis-addressed call, released otherwise
            flag = me.env.get('self._event_active')
            if sc['active']:
                if flag is not True:
                    bad['refuse'].append(f"{label}: the refused inner call leaves _event_active = {flag!r}: it unlocks "
                                         "the block for the handler that is still running")
            elif flag is not False:
                bad['unlock'].append(f"{label}: _event_active is {flag!r} after the call ended with {out}: the block "
                                     "refuses every later event")
            if saved_flag:
                bad['init'].append(f"{label}: the window that permits a recursive event is left open")
            for m in msgs:
                for asp in sc['aspects']:
                    bad[asp].append(f"{label}: {m}")
        res['applicable'] = True
    except AnalysisError as err:
        res['why'] = err.reason
    res['bad'] = {k: v[:4] for k, v in bad.items()}
    ck._sblock_event_run = res
    ck.abstract_cases += res['cases']
    ck.backing['SBlock.event'] = res['applicable'] and not any(res['bad'].values())
    return res


ASPECT_TEXT = {
    'dispatch': "a string event with an entry in the class handler table is passed to that handler with the data "
                "as keywords, everything else to _event(etype, data); the result is returned; the guard is set "
                "while the handler runs",
    'params': "an empty name is a ValueError and a non-string non-EventType a TypeError, before the guard is touched",
    'refuse': "an event arriving while the guard is set raises EdzedCircuitError, reaches no handler and leaves the "
              "guard set (it belongs to the outer call)",
    'cond': "EventCond resolves by the truth value of data['value'], a missing value counts as false, None means "
            "no event (return None, no handler, no initialisation), nesting is followed",
    'unlock': "_event_active is False after every outcome: result, no-event, unknown event, handler error, "
              "parameter error",
    'init': "a block with 0 or 1 completed initialisation steps is initialised (full=True) before the handler runs, "
            "inside the window that permits the initialising event; a block with 2 steps or outside a simulation "
            "is not",
    'errors': "a failed early initialisation is reported with circuit.abort(); an error raised inside a handler is reported with circuit.abort(EdzedCircuitError caused by it) and "
              "re-raised; EdzedUnknownEvent and an error of the call itself (one traceback level) are re-raised "
              "without abort",
}


def event_run_obligations(ck, rule, aspects):
    """Record the run's verdict for the given aspects under `rule`.  -> True when the run was applicable."""
    run_ = sblock_event_run(ck)
    fi = ck.prog.func(EV)
    if not run_['applicable']:
        ck.note(f"abstract run of SBlock.event not applicable: {run_['why']}")
        return False
    for a in aspects:
        msgs = run_['bad'][a]
        ck.ob(rule, f"{EV} :: abstract run :: {a}", not msgs,
              f"{ASPECT_TEXT[a]} ({run_['cases']} scenarios)" if not msgs else '; '.join(msgs[:2]), fi, fi.node)
    return True
