"""C12 -- OutputAsync honours its mode for every arrival pattern (structural clauses)."""
from __future__ import annotations

import ast

from sa.loader import recv, norm, norm1, walk_shallow, own_nodes, call_name, is_super_call
from sa.cfg import handler_types, path_pruned, stable_guard_facts
from sa.dataflow import node_defs
from sa.rulekit import (nodes_where, node_calls, node_roots, nodes_calling, return_nodes, own,
                        nodes_writing_attr, must_pass, is_const, written_value, expr_is, kw,
                        check_must_pass)
from sa.report import path_witness

OA = 'blocklib.sblocks2:OutputAsync'

UNDECIDED = [
    "all arrival / completion / stop interleavings on a time grid; that consecutive runs are "
    ">= guard_time apart in *time*; completion within stop_timeout -- schedules and timing; NOT "
    "decided",
    "behaviour of the user coroutine (it may ignore cancellation)",
]


def run(ck):
    ck.explanation = (
        "OutputAsync (edzed/blocklib/sblocks2.py): the user coroutine is awaited at one place "
        "inside a try with exactly the three outcome arms, each sending its own event tuple with "
        "the matching trigger and put=<the original data>; every item taken from the queue in the "
        "three control coroutines is consumed (run, reported as cancelled, or recognised as the "
        "stop sentinel) before it is dropped -- a linear must-use analysis; the active-run counter "
        "is incremented and decremented in a try/finally under fault model M2; the guard sleep is "
        "shielded and follows all three arms; mode shapes: 'wait' awaits inline on a FIFO queue, "
        "'start' creates a task per item without an intermediate await, 'cancel' cancels only "
        "after a successful dequeue and never at stop and awaits the previous run before the next.")
    ck.undecided = UNDECIDED
    prog = ck.prog
    oa = prog.cls(OA)
    m = oa.methods

    R1 = ck.rule('R12.1', "exactly one outcome with the original data: the user coroutine is "
                 "awaited once inside try/except CancelledError/except Exception/else; each arm "
                 "sends its own event tuple with the matching trigger and put=data", 'M1', 5)
    R2 = ck.rule('R12.2', "nothing accepted is lost: every item dequeued by a control coroutine is "
                 "run, reported through on_cancel, or is the stop sentinel, before it is "
                 "overwritten or dropped; _event_put enqueues the complete data without blocking",
                 'M0', 5)
    R3 = ck.rule('R12.3', "active-run counter: set_output(output + 1) ... finally: "
                 "set_output(output - 1) on all exits (M2); init_regular sets 0; no other "
                 "set_output", 'M2', 4)
    R4 = ck.rule('R12.4', "guard time cannot be shortened: the guard sleep is shielded, follows "
                 "every outcome arm and only a CancelledError is absorbed around it; "
                 "shield_cancel leaves its loop only when the inner task is done and re-raises a "
                 "deferred cancellation; guard_time > stop_timeout is refused", 'M1', 5)
    R5 = ck.rule('R12.5', "mode shapes: wait = inline await on a FIFO queue; start = a task per "
                 "item with no await in between, all gathered; cancel = cancel only after a "
                 "dequeue and never at stop, previous run awaited before the next is created",
                 'M0', 7)
    R6 = ck.rule('R12.6', "mode table and stop: c/cancel, w/wait, s/start map to their control "
                 "coroutines, anything else raises", 'M0', 2)

    R7 = ck.rule('R12.7', "the outcome of a run never escapes as an exception: under M0 (explicit `raise` "
                 "statements only) neither _output_coro nor _output_coro_wrapper nor a control coroutine can end "
                 "with an exception - a run that was cancelled, failed or succeeded is reported and absorbed, so "
                 "the control coroutine lives on for the next event", 'M0', 5)
    with ck.section('R12.1'):
        # ------------------------------------------------------------------ R12.1
        oc = m.get('_output_coro')
        ck.need(R1, oc is not None, "OutputAsync._output_coro not found")
        dparam = oc.node.args.args[1].arg
        tries = [x for x in own_nodes(oc.node) if isinstance(x, ast.Try) and
                 any(isinstance(a, ast.Await) and call_name(a.value) == '_coro' for s in x.body for a in walk_shallow(s))]
        awaits = [a for a in own_nodes(oc.node) if isinstance(a, ast.Await) and call_name(a.value) == '_coro']
        ok = len(tries) == 1 and len(awaits) == 1
        ck.ob(R1, f"{oc.fid} :: single await of the user coroutine", ok,
              "self._coro(...) is awaited at exactly one place, inside a try" if ok else
              f"{len(awaits)} await(s) of the user coroutine in {len(tries)} try block(s)", oc, oc.node)
        ck.need(R1, ok, "_output_coro: try statement not recognised")
        t = tries[0]
        arms = {}
        for h in t.handlers:
            ht = handler_types(h)
            arms['cancel' if ht == ['CancelledError'] else ('error' if ht == ['Exception'] else str(ht))] = h.body
        arms['success'] = t.orelse
        okarms = set(arms) == {'cancel', 'error', 'success'} and not t.finalbody and \
            [handler_types(h) for h in t.handlers].index(['CancelledError']) >= 0
        ck.ob(R1, f"{oc.fid} :: three arms", okarms,
              "except CancelledError / except Exception / else" if okarms else
              f"outcome arms are {sorted(arms)}", oc, t)
        want = {'cancel': ('self._on_cancel', set()), 'error': ('self._on_error', {'error'}),
                'success': ('self._on_success', {'value'})}
        for arm, body in arms.items():
            if arm not in want:
                continue
            tup, extra = want[arm]
            loops = [x for s in body for x in walk_shallow(s) if isinstance(x, ast.For)]
            sends = [x for s in body for x in walk_shallow(s) if isinstance(x, ast.Call) and call_name(x) == 'send']
            ok = len(loops) == 1 and len(sends) == 1 and norm(loops[0].iter) == tup
            why = f"{len(loops)} loop(s), {len(sends)} send(s)"
            if ok:
                c = sends[0]
                kws = {k.arg: k.value for k in c.keywords}
                ok = [norm(a) for a in c.args] == ['self'] and set(kws) == {'trigger', 'put'} | extra and \
                    is_const(kws['trigger'], arm) and norm(kws['put']) == dparam
                if ok and arm == 'error':
                    hname = [h.name for h in t.handlers if handler_types(h) == ['Exception']][0]
                    ok = norm(kws['error']) == hname
                if ok and arm == 'success':
                    tgt = [norm(s.targets[0]) for s in t.body if isinstance(s, ast.Assign) and
                           any(a is awaits[0] for a in walk_shallow(s.value))]
                    ok = bool(tgt) and norm(kws['value']) == tgt[0]
                why = f"send({', '.join(norm(a) for a in c.args)}, " + \
                    ', '.join(f"{k}={norm(v)}" for k, v in kws.items()) + ")"
            leaves = [x for s in body for x in walk_shallow(s) if isinstance(x, (ast.Return, ast.Raise, ast.Continue,
                                                                                 ast.Break))]
            ck.ob(R1, f"{oc.fid} :: {arm} arm", ok and not leaves,
                  f"loop over {tup} with trigger={arm!r}, put=<original data>" if ok and not leaves else
                  f"the {arm} arm does not report exactly once to {tup} with the original data, or "
                  f"leaves early ({why}; early exits: {[norm1(x) for x in leaves]})", oc,
                  body[0] if body else t)
        # the data parameter is not re-bound
        rebound = [x for x in own_nodes(oc.node) if isinstance(x, (ast.Assign, ast.AugAssign)) and
                   any(isinstance(tg, ast.Name) and tg.id == dparam for tg in
                       (x.targets if isinstance(x, ast.Assign) else [x.target]))]
        ck.ob(R1, f"{oc.fid} :: data not re-bound", not rebound,
              "the reported `put` item is the data the run was started with" if not rebound else
              "the data parameter is re-bound before it is reported", oc, rebound[0] if rebound else oc.node)
        for attr in ('_on_cancel', '_on_error', '_on_success'):
            own(ck, R1, attr, {m['__init__'].fid: 'constructor',
                               'blocklib.sblocks2:OutputFunc.__init__': 'OutputFunc has its own tuples'})

    with ck.section('R12.2'):
        # ------------------------------------------------------------------ R12.2
        for cname_ in ('_ctrl_cancel', '_ctrl_wait', '_ctrl_start'):
            fi = m.get(cname_)
            ck.need(R2, fi is not None, f"OutputAsync.{cname_} not found")
            g = ck.cfg(fi.fid, 'M0')
            qal = {'self._queue'} | {norm(n.ast.targets[0]) for n in g.nodes if n.kind == 'stmt' and
                                     isinstance(n.ast, ast.Assign) and norm(n.ast.value) == 'self._queue'}
            gets = nodes_where(g, lambda n: isinstance(n.ast, ast.Assign) and any(
                call_name(c) in ('get', 'get_nowait') and recv(c) in qal for c in node_calls(n)))
            ck.need(R2, gets, f"{fi.fid}: no dequeue site")
            for gn in gets:
                var = norm(gn.ast.targets[0])

                def consumes(n, var=var):
                    # run it
                    for c in node_calls(n):
                        if call_name(c) == '_output_coro_wrapper' and [norm(a) for a in c.args] == [var]:
                            return True
                        if call_name(c) == 'send' and any(k.arg == 'put' and norm(k.value) == var
                                                          for k in c.keywords):
                            return True
                    # report it as cancelled: the loop over the event tuple is the consumer
                    if n.kind == 'for' and norm(n.ast.iter) == 'self._on_cancel' and any(
                            isinstance(x, ast.Call) and call_name(x) == 'send' and
                            any(k.arg == 'put' and norm(k.value) == var for k in x.keywords)
                            for s in n.ast.body for x in walk_shallow(s)):
                        return True
                    # transfer to another variable that is itself tracked
                    if n.kind == 'stmt' and isinstance(n.ast, ast.Assign) and norm(n.ast.value) == var \
                            and isinstance(n.ast.targets[0], ast.Name):
                        return True
                    return False
                consumers = nodes_where(g, consumes, kinds=('stmt', 'for', 'test'))
                sentinel = [n for n in g.nodes if n.kind == 'branch' and n.polarity and
                            norm(n.test.ast) in (f'{var} is None', f'None is {var}')]
                redefs = [n for n in g.nodes if n is not gn and var in node_defs(n)]
                wit = path_pruned(g, gn, redefs + [g.exit, gn], avoid=consumers + sentinel,
                                  init_facts=stable_guard_facts(g, gn))
                ck.ob(R2, f"{fi.fid} :: {norm1(gn.ast)}", wit is None and bool(consumers),
                      f"`{var}` is run, reported as cancelled, transferred, or is the stop sentinel "
                      f"before it is dropped" if wit is None and consumers else
                      f"an accepted item (`{var}`) can be dropped silently: neither run nor reported "
                      f"through on_cancel", fi, gn.ast, witness=path_witness(g, wit))
            # transfers: the target of a transfer must be tracked as well (data = new_data)
            for n in g.nodes:
                if n.kind == 'stmt' and isinstance(n.ast, ast.Assign) and isinstance(n.ast.targets[0], ast.Name) \
                        and isinstance(n.ast.value, ast.Name) and n.ast.value.id != n.ast.targets[0].id and \
                        any(norm(gn.ast.targets[0]) == n.ast.value.id for gn in gets):
                    var = n.ast.targets[0].id
                    cons = nodes_where(g, lambda x, var=var: any(
                        (call_name(c) == '_output_coro_wrapper' and [norm(a) for a in c.args] == [var]) or
                        (call_name(c) == 'send' and any(k.arg == 'put' and norm(k.value) == var for k in c.keywords))
                        for c in node_calls(x)) or (x.kind == 'for' and norm(x.ast.iter) == 'self._on_cancel'),
                        kinds=('stmt', 'for'))
                    redefs = [x for x in g.nodes if x is not n and var in node_defs(x)]
                    wit = g.path_avoiding(n, redefs + [g.exit], avoid=cons, start_successors_only=True)
                    # the old value of the target must have been consumed before the transfer
                    ck.ob(R2, f"{fi.fid} :: transfer {norm1(n.ast)}", wit is None,
                          f"the transferred item `{var}` is run or reported before it is replaced"
                          if wit is None else f"after `{norm1(n.ast)}` the item can be dropped", fi, n.ast,
                          witness=path_witness(g, wit))
        # ---- at most one outcome per accepted item: an item that was reported through on_cancel is
        # never run afterwards, and none is run twice (a consumer is followed by a re-definition of
        # the variable before the next consumer of the same variable)
        n_pairs = 0
        for cname_ in ('_ctrl_cancel', '_ctrl_wait', '_ctrl_start'):
            fi = m.get(cname_)
            g = ck.cfg(fi.fid, 'M0')
            vars_ = sorted({norm(a) for n in g.nodes for c in node_calls(n)
                            if call_name(c) == '_output_coro_wrapper' for a in c.args})
            for var in vars_:
                def run_of(n, var=var):
                    return any(call_name(c) == '_output_coro_wrapper' and [norm(a) for a in c.args] == [var]
                               for c in node_calls(n))

                def report_of(n, var=var):
                    if n.kind == 'for' and norm(n.ast.iter) == 'self._on_cancel':
                        return any(isinstance(x, ast.Call) and call_name(x) == 'send' and
                                   any(k.arg == 'put' and norm(k.value) == var for k in x.keywords)
                                   for s_ in n.ast.body for x in walk_shallow(s_))
                    return False
                runs = nodes_where(g, run_of, kinds=('stmt', 'test'))
                reports = nodes_where(g, report_of, kinds=('for',))
                redefs = [n for n in g.nodes if var in node_defs(n)]
                for c1 in runs + reports:
                    for c2 in runs + reports:
                        if c1 in reports and c2 in reports:
                            continue        # the header of the reporting loop is re-entered per event
                        n_pairs += 1
                        if c1 in reports:
                            # leave the reporting loop first (its own iterations are one report)
                            starts = [g.nodes[v] for v, lab in g.succ[c1.id] if lab != 'iter']
                        else:
                            starts = [g.nodes[v] for v, lab in g.succ[c1.id] if lab != 'exc']
                        wit = None
                        for st_ in starts:
                            if st_ in redefs:
                                continue
                            if st_ is c2:
                                wit = [c1, c2]
                                break
                            w = path_pruned(g, st_, [c2], avoid=redefs, start_successors_only=False,
                                            init_facts=stable_guard_facts(g, c1))
                            if w is not None:
                                wit = [c1] + list(w)
                                break
                        k1 = 'run' if c1 in runs else 'cancel report'
                        k2 = 'run' if c2 in runs else 'cancel report'
                        ck.ob(R2, f"{fi.fid} :: `{var}`: {k1} then {k2}", wit is None,
                              f"after the {k1} of `{var}` the variable is re-bound before the next {k2}: "
                              f"one outcome per accepted event" if wit is None else
                              f"the same item `{var}` can get a {k1} and then a {k2}: two outcomes for "
                              f"one accepted event", fi, c2.ast, witness=path_witness(g, wit))
        ck.need(R2, n_pairs >= 4, f"only {n_pairs} consumer pairs analysed (expected >= 4)")

        ep = m.get('_event_put')
        ok = ep is not None and ep.node.args.kwarg is not None and any(
            isinstance(x, ast.Call) and call_name(x) == 'put_nowait' and recv(x) == 'self._queue' and
            [norm(a) for a in x.args] == [ep.node.args.kwarg.arg] for x in own_nodes(ep.node)) and \
            not ep.node.args.kwonlyargs and len(ep.node.args.args) == 1
        ck.ob(R2, f"{OA}._event_put", ok,
              "the complete event data is enqueued with put_nowait (never blocks, never drops)" if ok
              else "_event_put does not enqueue the complete event data", ep, ep.node if ep else None)

    with ck.section('R12.3'):
        # ------------------------------------------------------------------ R12.3
        ow = m.get('_output_coro_wrapper')
        ck.need(R3, ow is not None, "OutputAsync._output_coro_wrapper not found")
        g = ck.cfg(ow.fid, 'M2')
        so = nodes_calling(g, 'set_output')

        def delta(n):
            a = node_calls(n, 'set_output')[0].args[0]
            if isinstance(a, ast.BinOp) and norm(a.left) in ('self.output', 'self._output') and \
                    isinstance(a.right, ast.Constant) and a.right.value == 1:
                return +1 if isinstance(a.op, ast.Add) else (-1 if isinstance(a.op, ast.Sub) else 0)
            return 0
        inc = [n for n in so if delta(n) == +1]
        dec = [n for n in so if delta(n) == -1]
        ck.ob(R3, f"{ow.fid} :: +1 / -1", len(inc) == 1 and bool(dec) and len(inc) + len(dec) == len(so),
              f"one increment, {len(dec)} decrement node(s) (finally copies)", ow, ow.node)
        if inc:
            # after the increment has completed, every exit passes a decrement
            after = [g.nodes[v] for v, lab in g.succ[inc[0].id] if lab != 'exc']
            wit = None
            for a in after:
                if a in dec:
                    continue
                wit = wit or g.path_avoiding(a, [g.exit, g.raise_exit], avoid=dec)
            ck.ob(R3, f"{ow.fid} :: decrement on all exits", wit is None and bool(dec),
                  "after a completed increment every exit (normal, exception, cancellation) passes the "
                  "decrement" if wit is None and dec else
                  "a run can end without decrementing the active-run counter (the output would never "
                  "return to 0)", ow, inc[0].ast, witness=path_witness(g, wit))
            # no decrement without the increment
            p = g.path_avoiding(g.entry, dec, avoid=inc)
            ck.ob(R3, f"{ow.fid} :: no decrement without increment", p is None,
                  "the decrement is reached only after the increment" if p is None else
                  "the counter can be decremented although it was not incremented", ow, ow.node,
                  witness=path_witness(g, p))
        # every run is a counted run: the uncounted coroutine is entered through the wrapper only
        raw = sorted({f.fid for f in oa.methods.values() for x in own_nodes(f.node)
                      if isinstance(x, ast.Call) and call_name(x) == '_output_coro' and recv(x) == 'self'})
        ck.ob(R3, f"{OA} :: callers of _output_coro", raw == [ow.fid],
              "_output_coro is called by the counting wrapper only" if raw == [ow.fid] else
              f"_output_coro is called from {raw}: a run started there is not counted - the output stays 0 while "
              "the coroutine runs", ow, ow.node)
        sites = sorted({f.fid for f in oa.methods.values() for x in own_nodes(f.node)
                        if isinstance(x, ast.Call) and call_name(x) == 'set_output'})
        ir = m.get('init_regular')
        ok = sites == sorted([ow.fid, ir.fid]) and any(
            isinstance(x, ast.Call) and call_name(x) == 'set_output' and is_const(x.args[0], 0)
            for x in own_nodes(ir.node))
        ck.ob(R3, f"{OA} :: set_output sites", ok, f"set_output is called from {sites}; init sets 0"
              if ok else f"unexpected set_output sites {sites} (or init does not set 0)", ir, ir.node)

    with ck.section('R12.4'):
        # ------------------------------------------------------------------ R12.4
        g = ck.cfg(oc.fid, 'M1')
        guard = nodes_where(g, lambda n: any(isinstance(a, ast.Await) and isinstance(a.value, ast.Call) and
                                             call_name(a.value) == 'shield_cancel' for a in walk_shallow(n.ast)))
        ok = len(guard) == 1
        if ok:
            inner = [a for a in walk_shallow(guard[0].ast) if isinstance(a, ast.Call) and
                     call_name(a) == 'shield_cancel'][0].args[0]
            ok = isinstance(inner, ast.Call) and norm(inner.func) == 'asyncio.sleep' and \
                [norm(a) for a in inner.args] == ['self._guard_time']
        ck.ob(R4, f"{oc.fid} :: guard sleep shielded", ok,
              "await utils.shield_cancel(asyncio.sleep(self._guard_time))" if ok else
              "the guard sleep is not protected by shield_cancel: a cancellation shortens the guard "
              "time", oc, guard[0].ast if guard else oc.node)
        if guard:
            aw = nodes_where(g, lambda n: any(a is awaits[0] for a in walk_shallow(n.ast)))
            skipb = [n for n in g.nodes if n.kind == 'branch' and not n.polarity and
                     'self._guard_time' in norm(n.test.ast)]
            wit = g.path_avoiding(aw[0], [g.exit], avoid=guard + skipb, start_successors_only=True) if aw else None
            ck.ob(R4, f"{oc.fid} :: guard follows every arm", wit is None,
                  "after success, error and cancellation alike the guard time is waited (if configured)"
                  if wit is None else "an outcome arm leaves _output_coro without the guard sleep", oc,
                  guard[0].ast, witness=path_witness(g, wit))
            hs = [h for h in own_nodes(oc.node) if isinstance(h, ast.ExceptHandler) and
                  any(a is x for s in [st for st in own_nodes(oc.node) if isinstance(st, ast.Try) and h in st.handlers]
                      for b in s.body for x in walk_shallow(b)
                      for a in [y for y in walk_shallow(guard[0].ast)] if isinstance(a, ast.Await))]
            okh = all(handler_types(h) == ['CancelledError'] for h in hs) and bool(hs)
            ck.ob(R4, f"{oc.fid} :: only the deferred cancellation absorbed", okh,
                  "around the guard sleep only CancelledError is caught" if okh else
                  "the handler around the guard sleep catches more than CancelledError", oc,
                  hs[0] if hs else oc.node)
        sc = prog.func('utils.shield_cancel:shield_cancel')
        gs = ck.cfg(sc.fid, 'M1')
        brk = [n for n in gs.nodes if n.kind == 'stmt' and isinstance(n.ast, ast.Break)]
        aw = nodes_where(gs, lambda n: any(isinstance(a, ast.Await) and 'shield(' in norm(a.value)
                                           for a in walk_shallow(n.ast)))
        store = nodes_where(gs, lambda n: isinstance(n.ast, ast.Assign) and norm(n.ast.targets[0]) == 'cancel_exc'
                            and not is_const(n.ast.value, None))
        rer = nodes_where(gs, lambda n: isinstance(n.ast, ast.Raise) and n.ast.exc is not None and
                          norm(n.ast.exc) == 'cancel_exc', kinds=('stmt',))
        ok = len(aw) == 1 and bool(brk) and bool(store) and bool(rer) and \
            all(gs.path_avoiding(gs.entry, [b], avoid=aw) is None for b in brk) and \
            all(gs.has_guard(s_, 'task.done()', False) for s_ in store) and \
            all(gs.has_guard(r, 'cancel_exc is not None', True) for r in rer) and \
            all(any(gs.dominates(b, r) for b in brk) for r in rer)
        ck.ob(R4, sc.fid, ok, "the loop is left only when the shielded await returned; a cancellation "
              "received meanwhile is stored and re-raised afterwards" if ok else
              "shield_cancel can end before the inner task is done, or loses the deferred cancellation",
              sc, sc.node)
        ini = m['__init__']
        gi = ck.cfg(ini.fid, 'M0')
        rs = nodes_where(gi, lambda n: isinstance(n.ast, ast.Raise) and
                         gi.has_guard(n, 'self._guard_time > self.stop_timeout', True), kinds=('stmt',))
        ck.ob(R4, f"{ini.fid} :: guard_time <= stop_timeout", bool(rs),
              "guard_time > stop_timeout is refused at construction" if rs else
              "a guard_time longer than stop_timeout is accepted (stop could not complete in time)",
              ini, ini.node)

    with ck.section('R12.5'):
        # ------------------------------------------------------------------ R12.5
        cw = m['_ctrl_wait']
        gw = ck.cfg(cw.fid, 'M0')
        inline = [a for a in own_nodes(cw.node) if isinstance(a, ast.Await) and call_name(a.value) == '_output_coro_wrapper']
        tasks = [c for c in own_nodes(cw.node) if isinstance(c, ast.Call) and call_name(c) in ('create_task', 'ensure_future')]
        ck.ob(R5, f"{cw.fid} :: one at a time", len(inline) == 1 and not tasks,
              "each run is awaited inline: the next item is dequeued only after the previous run "
              "(incl. guard time) finished" if len(inline) == 1 and not tasks else
              "wait mode starts runs concurrently", cw, cw.node)
        st = m['start']
        qw = [x for x in own_nodes(st.node) if isinstance(x, ast.Assign) and norm(x.targets[0]) == 'self._queue']
        ok = len(qw) == 1 and norm(qw[0].value) == 'asyncio.Queue()'
        ck.ob(R5, f"{st.fid} :: FIFO queue", ok, "self._queue = asyncio.Queue() (arrival order)" if ok
              else f"the queue is `{norm(qw[0].value) if qw else None}`, not a FIFO asyncio.Queue()",
              st, qw[0] if qw else st.node)
        own(ck, R5, '_queue', {st.fid: 'created at start',
                               'blocklib.sblocks1:Repeat.start': "Repeat's own queue",
                               'blocklib.cron:Cron.start': "Cron's own queue"})
        cs = m['_ctrl_start']
        gst = ck.cfg(cs.fid, 'M0')
        get = nodes_where(gst, lambda n: any(call_name(c) == 'get' for c in node_calls(n)))
        mk = nodes_where(gst, lambda n: any(call_name(c) in ('create_task', 'ensure_future') for c in node_calls(n)))
        ok = len(get) == 1 and len(mk) == 1
        if ok:
            between = [n for n in gst.nodes if n.id in gst.reachable_from(get[0], avoid=[mk[0]])
                       and mk[0].id in gst.reachable_from(n) and n is not get[0] and n.ast is not None
                       and n.kind in ('stmt', 'test') and
                       any(isinstance(a, ast.Await) for a in walk_shallow(n.ast))]
            ok = not between
        ck.ob(R5, f"{cs.fid} :: every event starts at once", ok,
              "a task is created for each item with no await between dequeue and creation" if ok else
              "start mode waits between dequeue and task creation (runs would not start at once)",
              cs, mk[0].ast if mk else cs.node)
        cc = m['_ctrl_cancel']
        gc = ck.cfg(cc.fid, 'M0')
        cancels = nodes_calling(gc, 'cancel')
        ok = len(cancels) == 1 and gc.has_guard(cancels[0], 'stop', False)
        deq = nodes_where(gc, lambda n: any(isinstance(a, ast.Await) and call_name(a.value) == 'get'
                                            for a in walk_shallow(n.ast)))
        # the cancel is reached only after a dequeue in the same iteration
        heads = [n for n in gc.nodes if n.kind == 'test' and isinstance(n.stmt, ast.While)
                 and gc.dominates(n, cancels[0])] if cancels else []
        head = min(heads, key=lambda n: n.id) if heads else None
        ok = ok and head is not None and path_pruned(gc, head, cancels, avoid=deq) is None
        ck.ob(R5, f"{cc.fid} :: cancel only for newer data", ok,
              "task.cancel() is reached only after a successful dequeue of the same iteration and "
              "never when stopping (the last run completes)" if ok else
              "a run can be cancelled without a newer event (e.g. at stop)", cc,
              cancels[0].ast if cancels else cc.node)
        mk = nodes_where(gc, lambda n: any(call_name(c) in ('create_task', 'ensure_future') for c in node_calls(n)))
        aw = nodes_where(gc, lambda n: any(isinstance(a, ast.Await) and norm(a.value) == 'task'
                                           for a in walk_shallow(n.ast)))
        okone = len(mk) == 1 and len(aw) >= 1
        if okone:
            live = [n for n in gc.nodes if n.kind == 'branch' and not n.polarity and
                    'task.done()' in norm(n.test.ast)]
            p = gc.path_avoiding(mk[0], [mk[0]], avoid=aw + live, start_successors_only=True)
            okone = p is None
        ck.ob(R5, f"{cc.fid} :: at most one active", okone,
              "the previous run is awaited (unless done) before the next task is created" if okone
              else "a new run can be created while the previous one is still active", cc,
              mk[0].ast if mk else cc.node)
        # the newest item runs: the created task gets the last binding of data
        if mk:
            c = [c for c in node_calls(mk[0]) if call_name(c) == '_output_coro_wrapper']
            ok = bool(c) and [norm(a) for a in c[0].args] == ['data']
            tr = nodes_where(gc, lambda n: isinstance(n.ast, ast.Assign) and norm(n.ast.targets[0]) == 'data'
                             and norm(n.ast.value) == 'new_data')
            ok = ok and bool(tr)
            ck.ob(R5, f"{cc.fid} :: most recent event runs", ok,
                  "older queued items are reported as cancelled, the newest becomes `data` and is run"
                  if ok else "the run is not started with the most recent event", cc, mk[0].ast)
        gth = [a for a in own_nodes(cs.node) if isinstance(a, ast.Await) and call_name(a.value) == 'gather']
        wall = len(gth) == 1 and any(k.arg == 'return_exceptions' and isinstance(k.value, ast.Constant)
                                     and k.value.value is True for k in gth[0].value.keywords)
        ck.ob(R5, f"{cs.fid} :: gathered", len(gth) == 1 and wall, "all started tasks are gathered after the "
              "sentinel, whatever their outcome (return_exceptions=True)" if len(gth) == 1 and wall else
              ("start mode does not wait for its tasks" if len(gth) != 1 else
               "gather() without return_exceptions=True: a failing run ends the wait for the others, the "
               "stop_data run is never started and the other runs outlive the stop"), cs, cs.node)
        # every path from a task creation to the exit passes the gather; the only accepted way round
        # it is the false outcome of a truth test of the very container the tasks were added to
        mks = nodes_where(gst, lambda n: any(call_name(c) in ('create_task', 'ensure_future') for c in node_calls(n)))
        gnodes = nodes_where(gst, lambda n: any(isinstance(a, ast.Await) and call_name(a.value) == 'gather'
                                                for a in walk_shallow(n.ast)))
        conts = set()
        for n in mks:
            for c in node_calls(n, 'add'):
                if recv(c):
                    conts.add(recv(c))
            if isinstance(n.ast, ast.Assign):
                conts.add(norm(n.ast.targets[0]))
        gargs = {norm(a.value) if isinstance(a, ast.Starred) else norm(a)
                 for n in gnodes for a_ in walk_shallow(n.ast) if isinstance(a_, ast.Await)
                 for a in a_.value.args}
        from sa.cfg import decompose, canon_fact
        empties = set()
        for c_ in conts:
            for t_ in (c_, f'len({c_}) > 0', f'len({c_})', f'len({c_}) != 0', f'len({c_}) >= 1'):
                empties.add(canon_fact(ast.parse(t_, mode='eval').body, False))
            empties.add(canon_fact(ast.parse(f'len({c_}) == 0', mode='eval').body, True))
        empty_br = [n for n in gst.nodes if n.kind == 'branch' and
                    any(canon_fact(e, p_) in empties for e, p_ in decompose(n.test.ast, n.polarity))]
        wit = None
        for n in mks:
            wit = wit or gst.path_avoiding(n, [gst.exit], avoid=gnodes + empty_br, start_successors_only=True)
        okg = bool(mks) and bool(gnodes) and wit is None and bool(conts & gargs)
        ck.ob(R5, f"{cs.fid} :: every started run is awaited before the control task ends", okg,
              f"every path from create_task to the exit awaits gather(*{sorted(conts & gargs)}) (skipped "
              f"only when that container is empty)" if okg else
              "the control task of start mode can end while a run it has just created is still "
              "pending (it is not awaited: stop_data would not be processed last / the run is "
              "abandoned)", cs, mks[0].ast if mks else cs.node, witness=path_witness(gst, wit))

        # the drain of cancel mode runs until the queue IS empty (or the sentinel was met): an item put
        # back synchronously by an on_cancel recipient during the drain is picked up as well; a size
        # snapshot (`for _ in range(queue.qsize())`) leaves it behind, and the next loop turn cancels
        # a task that has not started yet
        from sa.cfg import canon_fact as _cf, decompose as _dc
        qal_ = {'self._queue'} | {norm(n.ast.targets[0]) for n in gc.nodes if n.kind == 'stmt' and
                                   isinstance(n.ast, ast.Assign) and norm(n.ast.value) == 'self._queue'}
        wants_ = set()
        for q_ in qal_:
            wants_.add(_cf(ast.parse(f'{q_}.empty()', mode='eval').body, True))
            wants_.add(_cf(ast.parse(f'{q_}.qsize() == 0', mode='eval').body, True))
            wants_.add(_cf(ast.parse(f'{q_}.qsize() > 0', mode='eval').body, False))
            wants_.add(_cf(ast.parse(f'{q_}.qsize()', mode='eval').body, False))
        emptyq = [n for n in gc.nodes if n.kind == 'branch' and any(
            _cf(e_, p_) in wants_ for e_, p_ in _dc(n.test.ast, n.polarity))]
        sentinel_ = [n for n in gc.nodes if n.kind == 'branch' and n.polarity and
                     norm(n.test.ast).endswith(' is None') and 'task' not in norm(n.test.ast)]
        witd = None
        if mk and deq:
            for d_ in deq:
                witd = witd or gc.path_avoiding(d_, mk, avoid=emptyq + sentinel_, start_successors_only=True)
        ck.ob(R5, f"{cc.fid} :: drained until empty before the run starts", bool(mk) and bool(emptyq) and witd is None,
              "between the dequeue and the task creation the queue was seen empty (or the stop "
              "sentinel was met) on every path" if mk and emptyq and witd is None else
              "a run can be started while items are still queued (the drain is bounded by a size "
              "snapshot or skipped): an event put back during the drain is left behind, the next turn "
              "cancels the not yet started task and the control task dies on the CancelledError", cc,
              mk[0].ast if mk else cc.node, witness=path_witness(gc, witd))
        from rules.shared import stop_data_condition
        stop_data_condition(ck, R6)

    with ck.section('R12.6'):
        # ------------------------------------------------------------------ R12.6
        gi = ck.cfg(ini.fid, 'M0')
        mp = {}
        for n in nodes_writing_attr(gi, '_ctrl_coro'):
            v = norm(written_value(n, '_ctrl_coro'))
            for e, p in gi.guards(n):
                if isinstance(e, ast.Compare) and isinstance(e.ops[0], ast.In) and p and norm(e.left) == 'mode':
                    try:
                        mp[v] = set(ast.literal_eval(e.comparators[0]))
                    except ValueError:
                        pass
        want = {'self._ctrl_cancel': {'c', 'cancel'}, 'self._ctrl_wait': {'w', 'wait'},
                'self._ctrl_start': {'s', 'start'}}
        ck.ob(R6, f"{ini.fid} :: mode table", mp == want,
              "c/cancel, w/wait, s/start select their control coroutines" if mp == want else
              f"mode table is {mp}", ini, ini.node)
        other = nodes_where(gi, lambda n: isinstance(n.ast, ast.Raise) and n.kinds == {'N:ValueError'} and
                            all(gi.has_guard(n, f"mode in {t_}", False) for t_ in
                                ('{"c", "cancel"}', '{"w", "wait"}', '{"s", "start"}')), kinds=('stmt',))
        ck.ob(R6, f"{ini.fid} :: unknown mode", bool(other),
              "any other mode raises ValueError" if other else "an unknown mode is accepted", ini, ini.node)

    with ck.section('R12.7'):
        # ------------------------------------------------------------------ R12.7
        for nm in ('_output_coro', '_output_coro_wrapper', '_ctrl_cancel', '_ctrl_wait', '_ctrl_start'):
            f7 = m.get(nm)
            ck.need(R7, f7 is not None, f"OutputAsync.{nm} not found")
            # M1: awaits and hook calls may raise, so the handlers are reachable; what is asked is whether an
            # *explicit* raise statement (also a bare re-raise in a handler) propagates to the caller
            g7 = ck.cfg(f7.fid, 'M1')
            reach7 = g7.reachable()
            handlers7 = [n for n in g7.nodes if n.kind == 'handler']
            p7 = None
            for r7 in g7.nodes:
                if r7.id in reach7 and r7.kind == 'stmt' and isinstance(r7.ast, ast.Raise):
                    p7 = p7 or g7.path_avoiding(r7, [g7.raise_exit], avoid=handlers7)
            ck.ob(R7, f"{f7.fid} :: no explicit raise escapes", p7 is None,
                  "no `raise` statement of this coroutine reaches its caller" if p7 is None else
                  "an explicit `raise` ends this coroutine with an exception: in wait mode (and through `await "
                  "task` in cancel mode) it ends the control coroutine, the events still queued or arriving "
                  "later are never run and get no outcome", f7, p7[0].ast if p7 else f7.node,
                  witness=path_witness(g7, p7))
