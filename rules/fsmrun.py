"""Abstract run of FSM._ctx_event (shared by C03, C04, C11).

The function - with every private helper of FSM a restructuring may have split it into - is
interpreted by sa/minieval.py on a small machine (states A, B (timed), C; events e, f, g, tev) in
thirteen scenarios that together exercise every clause the properties state about one event:
table look-up precedence, Goto, rejection, conditions, action order, chained transitions (from an
entry action and from a zero-length timer), the error cases of chaining, the guard flag on every
exit, the per-event data context.  All collaborators (callbacks, event senders, timer, output) are
recording stand-ins; a stand-in that has to send an event *to the machine itself* re-enters the
interpreted function through the evaluator (so the recursion guard and the chaining slot are the
code's own).  Nothing of edzed is imported or executed.
"""
from __future__ import annotations

import types

from sa.loader import AnalysisError
from sa.minieval import MiniEval, Obj, ModuleGlobals, _Raised, _Fault

CTX = 'fsm:FSM._ctx_event'

TRANSITIONS = {('e', 'A'): 'B', ('e', None): 'C', ('f', 'B'): None, ('f', None): 'A', ('g', None): 'A',
               ('tev', 'B'): 'C', ('h', 'A'): None}
TIMED = {'B': 'tev'}
EVENTS = {'e', 'f', 'g', 'tev', 'h'}


class _Undef:
    def __repr__(self):
        return '<UNDEF>'

    def __bool__(self):
        return False


class GotoStub(Obj):
    def __init__(self, state):
        super().__init__(f'Goto({state})', {}, {'state': state})


def _snap(v):
    try:
        return dict(v)
    except Exception:       # noqa: BLE001 - anything not a mapping is recorded as it is
        return v


def _scenarios():
    """(label, aspects, initial state, initialized, etype, data, script, expected outcome, expected trace)
    script: what the stand-ins do: {'cond': bool, 'enter': {state: [nested events] | 'raise'},
    'timer': {state: [nested events]}}.  The expected trace lists the observable steps in order; a
    callback step carries the event data the callback reads through fsm_event_data at that moment."""
    G = GotoStub
    E = []

    def add(label, aspects, state, init, etype, data, script, outcome, trace):
        E.append(dict(label=label, aspects=aspects, state=state, init=init, etype=etype, data=data,
                      script=script, outcome=outcome, trace=trace))

    def cb(kind, name, ctx):
        return ('cb', kind, name, ctx)
    add("initial Goto on an uninitialised machine", ('order', 'goto'), None, False, G('A'), {}, {},
        ('return', True),
        [('S', 'A'), cb('enter', 'A', {}), ('C',), ('U', 'OUT'), ('ev', 'on_enter')])
    add("table event, rule for the current state, condition true", ('order', 'lookup', 'cond', 'timer', 'data'),
        'A', True, 'e', {'k': 1}, {'cond': True}, ('return', True),
        [cb('cond', 'e', {'k': 1}), cb('exit', 'A', {'k': 1}), ('ev', 'on_exit'), ('T0',), ('S', 'B'),
         cb('enter', 'B', {'k': 1}), ('T1', None, 'tev'), ('C',), ('U', 'OUT'), ('ev', 'on_enter')])
    add("per-event duration", ('timer',), 'A', True, 'e', {'duration': 5}, {'cond': True}, ('return', True),
        [cb('cond', 'e', {'duration': 5}), cb('exit', 'A', {'duration': 5}), ('ev', 'on_exit'), ('T0',),
         ('S', 'B'), cb('enter', 'B', {'duration': 5}), ('T1', 5, 'tev'), ('C',), ('U', 'OUT'), ('ev', 'on_enter')])
    add("condition false: rejected without any effect", ('reject', 'cond'), 'A', True, 'e', {'k': 1},
        {'cond': False}, ('return', False), [cb('cond', 'e', {'k': 1})])
    add("forbidding rule (target None) for the current state beats the any-state rule", ('reject', 'lookup'),
        'B', True, 'f', {}, {'cond': True}, ('return', False),
        [('notrans', {'trigger': 'notrans', 'event': 'f', 'state': 'B'})])
    add("no rule at all for the current state", ('reject', 'lookup'), 'C', True, 'h', {}, {'cond': True},
        ('return', False), [('notrans', {'trigger': 'notrans', 'event': 'h', 'state': 'C'})])
    add("any-state rule applies where no specific rule exists", ('lookup', 'order'), 'C', True, 'e', {},
        {'cond': True}, ('return', True),
        [cb('cond', 'e', {}), cb('exit', 'C', {}), ('ev', 'on_exit'), ('T0',), ('S', 'C'),
         cb('enter', 'C', {}), ('C',), ('U', 'OUT'), ('ev', 'on_enter')])
    add("unknown event type", ('reject',), 'A', True, 'zzz', {}, {'cond': True},
        ('raise', 'EdzedUnknownEvent'), None)
    add("event type that is not a string", ('reject',), 'A', True, 5, {}, {'cond': True},
        ('raise', 'EdzedUnknownEvent'), None)
    add("Goto on an initialised machine consults no condition", ('goto', 'cond', 'order'), 'A', True, G('C'),
        {}, {'cond': False}, ('return', True),
        [cb('exit', 'A', {}), ('ev', 'on_exit'), ('T0',), ('S', 'C'), cb('enter', 'C', {}), ('C',),
         ('U', 'OUT'), ('ev', 'on_enter')])
    add("transition chained from an entry action: the intermediate state is invisible",
        ('chain', 'data', 'timer', 'order'), 'A', True, 'e', {'k': 1},
        {'cond': True, 'enter': {'B': [('g', {'n': 2})]}}, ('return', True),
        [cb('cond', 'e', {'k': 1}), cb('exit', 'A', {'k': 1}), ('ev', 'on_exit'), ('T0',), ('S', 'B'),
         cb('enter', 'B', {'k': 1}), cb('cond', 'g', {'n': 2}), ('nested', True),
         ('after-nested', 'enter', 'B', {'k': 1}),
         cb('exit', 'B', {'n': 2}), ('S', 'A'), cb('enter', 'A', {'n': 2}), ('C',), ('U', 'OUT'),
         ('ev', 'on_enter')])
    add("transition chained from a zero-length timer", ('chain', 'timer', 'data'), 'A', True, 'e', {},
        {'cond': True, 'timer': {'B': [('tev', {'t': 0})]}}, ('return', True),
        [cb('cond', 'e', {}), cb('exit', 'A', {}), ('ev', 'on_exit'), ('T0',), ('S', 'B'),
         cb('enter', 'B', {}), ('T1', None, 'tev'), cb('cond', 'tev', {'t': 0}), ('nested', True),
         cb('exit', 'B', {'t': 0}), ('S', 'C'), cb('enter', 'C', {'t': 0}), ('C',), ('U', 'OUT'),
         ('ev', 'on_enter')])
    add("two chained requests from one entry action", ('chain', 'guard'), 'A', True, 'e', {},
        {'cond': True, 'enter': {'B': [('g', {}), ('g', {})]}}, ('raise', 'EdzedCircuitError'), None)
    add("endless chain", ('chain', 'guard'), 'A', True, 'e', {},
        {'cond': True, 'enter': {'B': [('g', {})], 'A': [('e', {})]}}, ('raise', 'EdzedCircuitError'), None)
    add("entry action raises", ('guard',), 'A', True, 'e', {}, {'cond': True, 'enter': {'B': 'raise'}},
        ('fault', 'RuntimeError'), None)
    add("entry action requests a chained transition and then fails: nothing stays pending", ('chain', 'guard'),
        'A', True, 'e', {}, {'cond': True, 'enter': {'B': [('g', {}), 'RAISE']}}, ('fault', 'RuntimeError'), None)
    add("exit action fails (a non-fatal error such as an unknown event sent from it): the guard is released",
        ('guard',), 'A', True, 'e', {}, {'cond': True, 'exit': {'A': 'raise'}}, ('fault', 'RuntimeError'), None)
    add("a recipient of an on_exit event fails: the guard is released", ('guard',), 'A', True, 'e', {},
        {'cond': True, 'send': {'on_exit': 'raise'}}, ('fault', 'RuntimeError'), None)
    add("a recipient of an on_enter event fails: the guard is released", ('guard',), 'A', True, 'e', {},
        {'cond': True, 'send': {'on_enter': 'raise'}}, ('fault', 'RuntimeError'), None)
    add("rejected nested event inside an entry action changes nothing", ('chain', 'reject', 'data'), 'A', True,
        'e', {'k': 1}, {'cond': True, 'enter': {'B': [('f', {'z': 9})]}}, ('return', True),
        [cb('cond', 'e', {'k': 1}), cb('exit', 'A', {'k': 1}), ('ev', 'on_exit'), ('T0',), ('S', 'B'),
         cb('enter', 'B', {'k': 1}), ('notrans', {'trigger': 'notrans', 'event': 'f', 'state': 'B'}),
         ('nested', False), ('after-nested', 'enter', 'B', {'k': 1}), ('T1', None, 'tev'), ('C',), ('U', 'OUT'),
         ('ev', 'on_enter')])
    add("entry action of the initial state chains a table event: no condition is consulted before the "
        "machine is initialised", ('cond', 'chain', 'goto'), None, False, G('A'), {},
        {'cond': False, 'enter': {'A': [('e', {'n': 1})]}}, ('return', True),
        [('S', 'A'), cb('enter', 'A', {}), ('nested', True), ('after-nested', 'enter', 'A', {}),
         cb('exit', 'A', {'n': 1}), ('S', 'B'), cb('enter', 'B', {'n': 1}), ('T1', None, 'tev'), ('C',),
         ('U', 'OUT'), ('ev', 'on_enter')])
    return E


def fsm_ctx_run(ck):
    """-> {'applicable', 'why', 'bad': {aspect: [messages]}, 'cases'} (cached on ck; sets
    ck.backing['FSM._ctx_event'])."""
    if getattr(ck, '_fsm_ctx_run', None) is not None:
        return ck._fsm_ctx_run
    prog = ck.prog
    res = {'applicable': False, 'why': '', 'bad': {}, 'cases': 0}
    bad = {k: [] for k in ('order', 'lookup', 'cond', 'reject', 'goto', 'chain', 'data', 'timer', 'guard')}
    try:
        fi = prog.func(CTX)
        fsm = prog.cls('fsm:FSM')
        params = [a.arg for a in fi.node.args.args]
        if len(params) != 3:
            raise AnalysisError('fsm run', 'unexpected signature of FSM._ctx_event')
        p_et, p_data = params[1], params[2]
        STUBBED = {'_run_cb', '_send_events', '_stop_timer', '_start_timer', 'calc_output', 'set_output',
                   'is_initialized', '_check_state', 'event', 'log_debug', 'log_warning', 'log_error'}
        # a nested event enters through FSM._event (which gives it a context of its own) when that wrapper
        # can be interpreted
        evfi = fsm.methods.get('_event')

        def resolve(text):
            if text.startswith('self.') and text[5:].isidentifier() and text[5:] not in STUBBED:
                f_ = prog.resolve_method(fsm, text[5:])
                if f_ is not None and f_.cls is fsm and not prog.is_dummy(f_):
                    return f_.node
            return None
        UNDEF = _Undef()
        for sc in _scenarios():
            T = []
            script = sc['script']

            ctxval = [None]
            ro_bad = []

            def ctx_set(v):
                ctxval[0] = v
                if isinstance(v, dict):
                    ro_bad.append(v)        # a plain (mutable) dict handed to the callbacks

            def copy_context():
                def run(f, *a):
                    saved = ctxval[0]
                    try:
                        return f(*a)
                    finally:
                        ctxval[0] = saved
                return Obj('context', {'run': run})

            def reenter(_me, et, dt):
                out = None
                entry = evfi if evfi is not None else fi
                try:
                    out = _me._closure(entry.node.args, entry.node.body, bound_method=True)(et, dt)
                finally:
                    T.append(('nested', out))
                return out

            def run_cb(kind, name, _me=None):
                T.append(('cb', kind, name, _snap(ctxval[0])))
                if kind == 'cond':
                    # two conditions (instance callback and method): ALL of them must be true
                    return [script.get('cond', True), True]
                if kind == 'exit' and script.get('exit', {}).get(name) == 'raise':
                    raise RuntimeError('exit action failed')
                if kind == 'enter':
                    todo = script.get('enter', {}).get(name)
                    if todo == 'raise':
                        raise RuntimeError('entry action failed')
                    for item in (todo or []):
                        if item == 'RAISE':
                            raise RuntimeError('entry action failed after chaining')
                        reenter(_me, *item)
                    if todo:
                        T.append(('after-nested', kind, name, _snap(ctxval[0])))
                return [None]
            run_cb.wants_me = True

            def start_timer(duration, timed_event, _me=None):
                T.append(('T1', duration, timed_event))
                # the state the timer belongs to is the one just entered
                cur = _me.env.get('self._state')
                for et, dt in script.get('timer', {}).get(cur, []):
                    reenter(_me, et, dt)
            start_timer.wants_me = True
            def send_events(which):
                T.append(('ev', which))
                if script.get('send', {}).get(which) == 'raise':
                    raise RuntimeError('event recipient failed')
            notrans = Obj('on_notrans', {'send': lambda *a, **k: T.append(('notrans', k))})
            env = {
                'self': 'SELF', p_et: sc['etype'], p_data: dict(sc['data']),
                'Goto': GotoStub, 'block.UNDEF': UNDEF, 'UNDEF': UNDEF,
                'types.MappingProxyType': types.MappingProxyType, 'MappingProxyType': types.MappingProxyType,
                'fsm_event_data.set': ctx_set,
                'contextvars.copy_context': copy_context, 'copy_context': copy_context,
                'self._check_state': lambda s: None,
                'self._ct_events': set(EVENTS), 'self._ct_transition': dict(TRANSITIONS),
                'self._ct_timed_event': dict(TIMED), 'self._ct_chainlimit': 9,
                'self._ct_states': {'A', 'B', 'C'},
                'self._state': sc['state'] if sc['state'] is not None else UNDEF,
                'self._on_notrans': (notrans,),
                'self.is_initialized': lambda: sc['init'],
                'self._run_cb': run_cb,
                'self._send_events': send_events,
                'self._stop_timer': lambda: T.append(('T0',)),
                'self._start_timer': start_timer,
                'self.calc_output': lambda: (T.append(('C',)), 'OUT')[1],
                'self.set_output': lambda v: T.append(('U', v)),
                'self._fsm_event_active': False, 'self._next_event': None,
                'self._enable_event': Obj('enable_event', {'__enter__': lambda: T.append(('EN',)),
                                                           '__exit__': lambda: T.append(('EX',))}),
                '__setattr__': lambda k, v: T.append(('S', v)) if k == 'self._state' else None,
            }
            glob = ModuleGlobals(prog, fi.module, {'Goto': GotoStub, 'UNDEF': UNDEF,
                                                   'MappingProxyType': types.MappingProxyType})
            me = MiniEval('FSM._ctx_event run', env, resolve, globals_=glob)
            out = me.run(fi.node.body)
            res['cases'] += 1
            label = sc['label']
            # ---- outcome
            want = sc['outcome']
            got_ok = out == want if want[0] == 'return' else (out[0] in ('raise', 'fault') and want[1] in str(out[1]))
            msgs = []
            if not got_ok:
                msgs.append(f"ends with {out}, documented {want}")
            # ---- trace (the enable-event window is judged separately)
            core = [t for t in T if t[0] not in ('EN', 'EX')]
            if sc['trace'] is not None and got_ok and core != sc['trace']:
                i = next((k for k, (a, b) in enumerate(zip(core, sc['trace'])) if a != b), min(len(core), len(sc['trace'])))
                msgs.append(f"step {i + 1}: code does {core[i] if i < len(core) else 'nothing more'}, documented "
                            f"{sc['trace'][i] if i < len(sc['trace']) else 'nothing more'} (trace {core})")
            if want[0] != 'return' or want[1] is False:
                # rejected / failed before the transition: no effect at all
                if want == ('return', False) or want[1] == 'EdzedUnknownEvent':
                    eff = [t for t in core if t[0] in ('S', 'T0', 'T1', 'U', 'ev', 'C') or
                           (t[0] == 'cb' and t[1] in ('enter', 'exit'))]
                    if eff:
                        msgs.append(f"a rejected event has effects: {eff}")
            if ro_bad and sc['data']:
                bad['data'].append(f"{label}: the callbacks can read a mutable dict through fsm_event_data "
                                   f"({ro_bad[0]}), not a read-only view")
            # ---- the guard flag and the chaining slot after the call
            if me.env.get('self._fsm_event_active') is not False:
                bad['guard'].append(f"{label}: _fsm_event_active is {me.env.get('self._fsm_event_active')!r} after "
                                    f"the call ended with {out} (the machine refuses or defers every later event)")
            if me.env.get('self._next_event') is not None:
                bad['chain'].append(f"{label}: a chained request is left pending after the call ended with {out}: "
                                    "the next event to this machine fails (`assert self._next_event is None`) "
                                    "and stops the simulation, also when this error was not fatal")
            # entry actions and timer starts run inside the window that permits a recursive event
            depth = 0
            for t in T:
                if t[0] == 'EN':
                    depth += 1
                elif t[0] == 'EX':
                    depth -= 1
                elif (t[0] == 'cb' and t[1] == 'enter') or t[0] == 'T1':
                    if depth <= 0 and got_ok:
                        bad['guard'].append(f"{label}: {t} runs outside the `with self._enable_event` window")
                elif t[0] == 'cb' and t[1] == 'exit' and depth > 0:
                    bad['guard'].append(f"{label}: an exit action runs inside the window that permits recursive events")
            for m in msgs:
                for a in sc['aspects']:
                    bad[a].append(f"{label}: {m}")
        res['applicable'] = True
    except AnalysisError as err:
        res['why'] = err.reason
    res['bad'] = {k: v[:4] for k, v in bad.items()}
    ck._fsm_ctx_run = res
    ck.abstract_cases += res['cases']
    ck.backing['FSM._ctx_event'] = res['applicable'] and not any(res['bad'].values())
    return res


ASPECT_TEXT = {
    'order': "exit action, on_exit events, timer stop, state write, entry action, timer start, calc_output, "
             "set_output, on_enter events - in this order",
    'lookup': "a rule for the current state beats the any-state rule; a None target or a missing rule rejects "
              "and sends on_notrans",
    'cond': "conditions are consulted for table events on an initialised machine only, and a false one rejects",
    'reject': "a rejected or unknown event has no effect (besides on_notrans / the condition call)",
    'goto': "Goto bypasses table and conditions",
    'chain': "a chained transition skips output and events of the intermediate state but runs its exit action; "
             "a second request or an endless chain is an EdzedCircuitError; nothing stays pending",
    'data': "fsm_event_data is set to the data of the event that causes the following actions (chained event "
            "included)",
    'timer': "the old timer is stopped before the state changes; the timer of the final state starts after its "
             "entry action with the per-event duration; a passed-through state gets no timer",
    'guard': "_fsm_event_active is False after every outcome (return, rejection, error); entry actions and "
             "timer starts run inside the recursion window, exit actions outside",
}


def fsm_run_obligations(ck, rule, aspects):
    """Record the run's verdict for the given aspects under `rule`.  -> True when the run was applicable."""
    run_ = fsm_ctx_run(ck)
    fi = ck.prog.func(CTX)
    if not run_['applicable']:
        ck.note(f"abstract run of FSM._ctx_event not applicable: {run_['why']}")
        return False
    for a in aspects:
        msgs = run_['bad'][a]
        ck.ob(rule, f"{CTX} :: abstract run :: {a}", not msgs,
              f"{ASPECT_TEXT[a]} ({run_['cases']} scenarios)" if not msgs else '; '.join(msgs[:2]), fi, fi.node)
    return True
