"""C03 -- An FSM follows its transition table and runs its actions in the documented order."""
from __future__ import annotations

import ast

from sa.loader import recv, norm, norm1, walk_shallow, own_nodes, call_name
from sa.typestate import check_language
from sa.tables import fold, Unfoldable
from sa.rulekit import (nodes_where, node_calls, node_roots, nodes_calling, return_nodes, own,
                        nodes_writing_attr, must_pass, is_const, written_value, expr_is, kw,
                        effect_nodes, effect_free_to)
from sa.report import path_witness

CTX = 'fsm:FSM._ctx_event'

UNDECIDED = [
    "the semantic content of FSM._build_tables beyond its chain limit (it raises at class "
    "creation, so every import already exercises it) -- not decided",
    "enumeration of transition tables x event sequences against an interpreter -- the decided "
    "clauses are the necessary conditions (action order, effect-free rejection, look-up "
    "precedence, data freshness)",
]


def _cb_kind(call):
    if call_name(call) == '_run_cb' and call.args and isinstance(call.args[0], ast.Constant):
        return call.args[0].value
    return None


def run(ck):
    ck.explanation = (
        "FSM._ctx_event (edzed/fsm.py): the action order is a typestate language over the CFG -- "
        "(exit, on_exit, stop timer)? (exit? state:=new, enter, start timer?)+ calc_output, "
        "set_output?, on_enter -- checked by exploring CFG x automaton from the acquire of the FSM "
        "flag to the normal exit; every `return False` exit is effect-free except the documented "
        "on_notrans / cond calls; the specific-state look-up precedes the any-state look-up, "
        "which is reachable only through the miss edge; Goto bypasses table and conditions; "
        "conditions are consulted only for known table events on an initialised FSM and combined "
        "with all(); the chain slot and loop are bounded; the context variable fsm_event_data is "
        "re-set after every re-binding of the current event before any further callback.")
    ck.undecided = UNDECIDED
    prog = ck.prog
    fsm = prog.cls('fsm:FSM')
    ctx = prog.func(CTX)

    R1 = ck.rule('R03.1', "action order (typestate): (X Ox T0)? X? S N T1? (X S N T1?)* C U? On Rt with "
                 "X=exit action, Ox=on_exit events, T0=stop timer, S=state write, N=entry action, "
                 "T1=start timer, C=calc_output, U=set_output, On=on_enter events", 'M0', 3)
    R2 = ck.rule('R03.2', "rejection changes nothing: no path to `return False` passes a state / "
                 "slot / timer / sdata write, an exit or entry action, state events, timer calls "
                 "or set_output; on_notrans is sent only on the no-transition exit; event() "
                 "returns the literals True/False only", 'M0', 4)
    R3 = ck.rule('R03.3', "look-up precedence: (event, current state) first, (event, None) only "
                 "on its miss edge; a None target rejects; Goto bypasses table and conditions",
                 'MK', 4)
    R4 = ck.rule('R03.4', "conditions are consulted only for known table events on an initialised "
                 "FSM and all of them must be true; _run_cb tries the instance callback and the "
                 "class method for the same name and collects every result", 'M0', 4)
    R5 = ck.rule('R03.5', "chaining bookkeeping: _next_event has two writers; the chain loop is a "
                 "bounded for-range with a raising else; the limit derives from the number of "
                 "states", 'M0', 4)
    R6 = ck.rule('R03.6', "event-data freshness: fsm_event_data is set to the read-only data of "
                 "the current event before any callback, and set again after every re-binding of "
                 "the current event; each event is handled in its own context copy", 'M0', 4)

    with ck.section('R03.0'):
        from rules.fsmrun import fsm_run_obligations
        for rule_, aspects_ in ((R1, ('order',)), (R2, ('reject',)), (R3, ('lookup', 'goto')), (R4, ('cond',)),
                                (R5, ('chain',)), (R6, ('data',))):
            fsm_run_obligations(ck, rule_, aspects_)

    with ck.section('R03.1', backed_by='FSM._ctx_event', prefix='fsm:FSM._ctx_event'):
        g = ck.cfg(CTX, 'M0')
        acq = [w for w in nodes_writing_attr(g, '_fsm_event_active')
               if is_const(written_value(w, '_fsm_event_active'), True)]
        ck.need(R1, len(acq) == 1, "_ctx_event: acquire of _fsm_event_active not recognised")
        state_w = nodes_writing_attr(g, '_state')
        rt = [r for r in return_nodes(g) if is_const(r.ast.value, True) and g.dominates(acq[0], r)]

        def events(n):
            ev = []
            for c in node_calls(n):
                k = _cb_kind(c)
                if k == 'exit':
                    ev.append('X')
                elif k == 'enter':
                    ev.append('N')
                cn = call_name(c)
                if cn == '_send_events' and c.args:
                    ev.append('Ox' if is_const(c.args[0], 'on_exit') else
                              ('On' if is_const(c.args[0], 'on_enter') else 'Ounknown'))
                elif cn == '_stop_timer':
                    ev.append('T0')
                elif cn == '_start_timer':
                    ev.append('T1')
                elif cn == 'calc_output':
                    ev.append('C')
                elif cn == 'set_output':
                    ev.append('U')
            if n in state_w:
                ev.append('S')
            if n in rt:
                ev.append('Rt')
            order = {'X': 0, 'Ox': 1, 'T0': 2, 'S': 3, 'N': 4, 'T1': 5, 'C': 6, 'U': 7, 'On': 8, 'Rt': 9}
            return sorted(ev, key=lambda s: order.get(s, 99)) if len(ev) > 1 else ev
        # first iteration: the old state's exit action ran in the prefix (or the FSM was not
        # initialised); every further iteration is an intermediate state whose exit action must run
        spec = "( X Ox T0 )? X? S N T1? ( X S N T1? )* C U? On Rt"
        try:
            ok, wit, st = check_language(g, spec, events, [g.exit], start=acq[0], prune_tests=True)
            ck.product_states += st['product_states']
            ck.ob(R1, f"{CTX} :: action order", ok,
                  "every accepted path performs the actions in the documented order" if ok else
                  f"a path performs the steps {' '.join(wit[1])} -- not in {spec}", ctx, ctx.node,
                  witness=path_witness(g, wit[0]) if wit else None)
        except Exception as err:
            ck.ob(R1, f"{CTX} :: action order", False, f"an unexpected step occurs: {err}", ctx, ctx.node)
        # the old-state actions run only for an initialised FSM
        first_x = [n for n in nodes_where(g, lambda n: any(_cb_kind(c) == 'exit' for c in node_calls(n)))
                   if not any(l.kind == 'for' and g.dominates(l, n) for l in g.nodes)]
        ok = bool(first_x) and all(g.has_guard(x, 'self.is_initialized()', True) for x in first_x)
        ck.ob(R1, f"{CTX} :: old-state actions only when initialised", ok,
              "exit action / on_exit / timer stop of the old state run iff the FSM is initialised" if ok
              else "the old state's exit actions are not tied to the FSM being initialised", ctx,
              first_x[0].ast if first_x else ctx.node)
        # _send_events reads state and output at call time
        se = fsm.methods.get('_send_events')
        ck.need(R1, se is not None, "FSM._send_events not found")
        gs = ck.cfg(se.fid, 'MK')
        sends = nodes_calling(gs, 'send')
        ok = len(sends) == 1
        if ok:
            c = node_calls(sends[0], 'send')[0]
            kws = {k.arg: k.value for k in c.keywords}
            ok = [norm(a) for a in c.args] == ['self'] and set(kws) == {'sdata', 'trigger', 'state', 'value'} \
                and norm(kws['value']) == 'self._output' and \
                expr_is(ck, se.fid, 'MK', sends[0], kws['state'], 'self._state') and \
                expr_is(ck, se.fid, 'MK', sends[0], kws['trigger'],
                        ("trigger_type.removeprefix('on_')", "trigger_type[3:]"))
            loops = [n for n in gs.nodes if n.kind == 'for' and gs.dominates(n, sends[0])]
            tbl = nodes_where(gs, lambda n: n.ast is not None and any(
                norm(x) == 'self._state_events[trigger_type]' for x in walk_shallow(n.ast)),
                kinds=('stmt', 'test', 'for'))
            ok = ok and len(loops) == 1 and bool(tbl)
        ck.ob(R1, se.fid, ok, "state events carry the state and output current at call time "
              "(so on_exit sees the old, on_enter the new ones), trigger without the 'on_' prefix"
              if ok else "_send_events does not send (self, sdata=, trigger=, state=self._state, "
              "value=self._output) for the events of the current state", se, se.node)

    with ck.section('R03.2', backed_by='FSM._ctx_event', prefix='fsm:FSM._ctx_event'):
        # ------------------------------------------------------------------ R03.2
        rf = [r for r in return_nodes(g) if is_const(r.ast.value, False)]
        others = [r for r in return_nodes(g) if r not in rf and not is_const(r.ast.value, True)]
        ck.ob(R2, f"{CTX} :: return values", bool(rf) and not others,
              "returns the literals True / False only" if rf and not others else
              f"returns {[norm(r.ast.value) for r in others]}", ctx, ctx.node)
        forbidden = effect_nodes(
            g, attrs_written=('_state', '_next_event', '_active_timer', 'sdata', '_fsm_event_active'),
            calls=('_send_events', '_stop_timer', '_start_timer', '_set_timer', 'set_output'),
            pred=lambda n: any(_cb_kind(c) in ('exit', 'enter') for c in node_calls(n)))
        effect_free_to(ck, R2, f"{CTX} :: return False is effect-free", ctx, g, rf, forbidden,
                       "a rejected event changes nothing")
        notrans = nodes_where(g, lambda n: any(call_name(c) == 'send' for c in node_calls(n)))
        ok = len(notrans) == 1
        if ok:
            c = node_calls(notrans[0], 'send')[0]
            kws = {k.arg: norm(k.value) for k in c.keywords}
            loops = [n for n in g.nodes if n.kind == 'for' and g.dominates(n, notrans[0])]
            ok = kws == {'trigger': "'notrans'", 'event': 'etype', 'state': 'self._state'} and \
                [norm(a) for a in c.args] == ['self'] and len(loops) == 1 and \
                norm(loops[0].ast.iter) == 'self._on_notrans' and \
                g.has_guard(notrans[0], 'newstate is None', True)
        ck.ob(R2, f"{CTX} :: on_notrans", ok,
              "on_notrans events (trigger='notrans', event=, state=) are sent exactly when no "
              "transition is defined" if ok else
              "on_notrans is not sent exactly on the no-transition exit with the documented items",
              ctx, notrans[0].ast if notrans else ctx.node)
        cond_rej = [r for r in rf if g.has_guard(r, 'newstate is None', False)]
        bad = [r for r in cond_rej if any(r.id in g.reachable_from(s) for s in notrans)]
        ck.ob(R2, f"{CTX} :: condition exit is silent", bool(cond_rej) and not bad,
              "a transition vetoed by a condition sends nothing" if cond_rej and not bad else
              "the condition-rejected exit also sends on_notrans (or does not exist)", ctx,
              cond_rej[0].ast if cond_rej else ctx.node)

    R7 = ck.rule('R03.7', "the transition table holds exactly the rules of EVENTS: one entry (event, "
                 "state) -> target per listed state, (event, None) for an any-state rule, None targets "
                 "(forbidding rules) included; 'a|b' strings and sequences of states are equivalent; a "
                 "duplicate rule, an unknown state or target raises (abstract run of FSM._build_tables "
                 "on small tables)", 'abstract run', 6)
    with ck.section('R03.7'):
        _build_tables_run(ck, R7)

    with ck.section('R03.3', backed_by='FSM._ctx_event', prefix='fsm:FSM._ctx_event'):
        # ------------------------------------------------------------------ R03.3
        gk = ck.cfg(CTX, 'MK')

        def lookup_nodes(keytext):
            res = []
            for n in nodes_where(gk, lambda n: True):
                for r in node_roots(n):
                    for x in walk_shallow(r):
                        if isinstance(x, ast.Subscript) and norm(x.value) == 'self._ct_transition' \
                                and norm(x.slice) == keytext:
                            res.append(n)
                        if isinstance(x, ast.Call) and call_name(x) == 'get' and \
                                recv(x) == 'self._ct_transition' and x.args and \
                                norm(x.args[0]) == keytext:
                            res.append(n)
            return res
        KEY = '(etype, self._state)'
        spec_l = [n for n in lookup_nodes(KEY) if n.kind == 'stmt']
        any_l = [n for n in lookup_nodes('(etype, None)') if n.kind == 'stmt']
        ok = len(spec_l) == 1 and len(any_l) == 1
        wit = None
        if ok:
            a, b = spec_l[0], any_l[0]
            # miss markers: the KeyError handler fed by the specific look-up, or the false outcome
            # of `KEY in table`
            markers = []
            for v, lab in gk.succ[a.id]:
                if lab == 'exc':
                    for h, hl in gk.succ[v]:
                        if gk.nodes[h].kind == 'handler' and 'KeyError' in norm(gk.nodes[h].ast.type):
                            markers.append(gk.nodes[h])
            for n in gk.nodes:
                if n.kind == 'branch' and gk.has_guard(gk.nodes[[v for v, _ in gk.succ[n.id]][0]]
                                                       if gk.succ[n.id] else n,
                                                       f'{KEY} in self._ct_transition', False):
                    if norm(n.test.ast).replace('not ', '').strip('()') .startswith(KEY) or \
                            f'{KEY} in self._ct_transition' in norm(n.test.ast) or \
                            f'{KEY} not in self._ct_transition' in norm(n.test.ast):
                        markers.append(n)
            wit = gk.path_avoiding(gk.entry, [b], avoid=markers) if markers else gk.path_avoiding(gk.entry, [b])
            normal_succ = [gk.nodes[v] for v, lab in gk.succ[a.id] if lab != 'exc']
            hit_reach = set()
            for s_ in normal_succ:
                hit_reach |= gk.reachable_from(s_)
            ok = wit is None and bool(markers) and b.id not in hit_reach
            # both bind the variable that is tested afterwards
            ok = ok and isinstance(a.ast, ast.Assign) and isinstance(b.ast, ast.Assign) and \
                norm(a.ast.targets[0]) == norm(b.ast.targets[0]) == 'newstate'
        ck.ob(R3, f"{CTX} :: specific rule beats any-state rule", ok,
              "the (event, None) rule is consulted only when no (event, current state) rule exists"
              if ok else "the any-state rule is consulted first, or also after a successful "
              "specific-state look-up", ctx, any_l[0].ast if any_l else ctx.node,
              witness=path_witness(gk, wit))
        # both results bind the same variable that is tested for None
        nn = [r for r in return_nodes(g) if is_const(r.ast.value, False) and
              g.has_guard(r, 'newstate is None', True)]
        ck.ob(R3, f"{CTX} :: None target rejects", bool(nn),
              "a missing rule or a None target returns False" if nn else
              "a None target / missing rule does not reject the event", ctx, ctx.node)
        bypass = nodes_where(g, lambda n: any(
            (isinstance(x, ast.Attribute) and x.attr == '_ct_transition') or
            (isinstance(x, ast.Call) and _cb_kind(x) == 'cond')
            for r in node_roots(n) for x in walk_shallow(r)))
        ok = bool(bypass) and all(g.has_guard(n, 'isinstance(etype, Goto)', False) for n in bypass)
        ck.ob(R3, f"{CTX} :: Goto bypasses the table", ok,
              "table look-ups and conditions happen only for non-Goto events" if ok else
              "a Goto event consults the transition table or a condition", ctx,
              bypass[0].ast if bypass else ctx.node)
        gt = nodes_where(g, lambda n: isinstance(n.ast, ast.Assign) and norm(n.ast.value) == 'etype.state'
                         and g.has_guard(n, 'isinstance(etype, Goto)', True))
        chk = [n for n in nodes_calling(g, '_check_state') if g.has_guard(n, 'isinstance(etype, Goto)', True)]
        ck.ob(R3, f"{CTX} :: Goto target", bool(gt) and bool(chk),
              "the Goto target becomes the new state after a validity check" if gt and chk else
              "the Goto target is not used (or not validated) as the new state", ctx, ctx.node)

    with ck.section('R03.4', backed_by='FSM._ctx_event', prefix='fsm:FSM._ctx_event'):
        # ------------------------------------------------------------------ R03.4
        cond_nodes = nodes_where(g, lambda n: any(_cb_kind(c) == 'cond' for c in node_calls(n)))
        ck.need(R4, len(cond_nodes) == 1, "_ctx_event: the cond call site was not recognised")
        cn = cond_nodes[0]
        cc = [c for c in node_calls(cn) if _cb_kind(c) == 'cond'][0]
        ok = g.has_fact(cn, 'self.is_initialized()', True, sub=cc)
        ck.ob(R4, f"{CTX} :: conditions only when initialised", ok,
              "cond_EVENT is evaluated only for an initialised FSM" if ok else
              "conditions are consulted for an uninitialised FSM", ctx, cn.ast)
        ok = g.has_fact(cn, 'etype in self._ct_events', True, sub=cc) and \
            g.has_fact(cn, 'newstate is None', False, sub=cc)
        ck.ob(R4, f"{CTX} :: conditions only for known events with a transition", ok,
              "no condition is consulted for unknown events or when no transition exists" if ok else
              "a condition is consulted before the event/transition is known to exist", ctx, cn.ast)
        wrapped = [x for r in node_roots(cn) for x in walk_shallow(r)
                   if isinstance(x, ast.Call) and call_name(x) == 'all' and x.args and x.args[0] is cc]
        arg_ok = len(cc.args) == 2 and norm(cc.args[1]) == 'etype'
        # rejection when not all(...)
        rej = [r for r in rf if g.has_guard(r, norm(wrapped[0]) if wrapped else 'False', False) or
               any(norm(wrapped[0]) in t for t, p in g.guard_texts(r))] if wrapped else []
        ck.ob(R4, f"{CTX} :: all conditions must hold", bool(wrapped) and arg_ok and bool(rej),
              "the event is rejected unless all(cond results) -- for the event's own name" if wrapped
              and arg_ok and rej else "the condition results are not combined with all() for this "
              "event (any()/first-only/other name)", ctx, cn.ast)
        rc = fsm.methods.get('_run_cb')
        ck.need(R4, rc is not None, "FSM._run_cb not found")
        gr = ck.cfg(rc.fid, 'MK')
        apps = nodes_where(gr, lambda n: any(call_name(c) == 'append' for c in node_calls(n)))
        srcs = set()
        for a in apps:
            c = node_calls(a, 'append')[0]
            inner = c.args[0] if c.args else None
            if isinstance(inner, ast.Call):
                srcs.add(norm(inner))
        tabs = {norm(n.ast.value) for n in gr.nodes if n.kind == 'stmt' and isinstance(n.ast, ast.Assign)
                and isinstance(n.ast.value, ast.Subscript) and norm(n.ast.value.slice) == 'cb_type'}
        idx = [n for n in gr.nodes if n.kind == 'stmt' and isinstance(n.ast, ast.Assign)
               and isinstance(n.ast.value, ast.Subscript) and norm(n.ast.value.slice) == 'name']
        rets = return_nodes(gr)
        # the two appended calls: <f>() and <g>(self), f and g taken from the two tables by `name`
        shapes_ = set()
        rdr = ck.rdefs(rc.fid, 'MK')
        for a in apps:
            c = node_calls(a, 'append')[0]
            inner = c.args[0] if c.args else None
            if isinstance(inner, ast.Call) and isinstance(inner.func, ast.Name):
                vals_ = rdr.value_exprs(a, inner.func.id)
                from_tab = bool(vals_) and all(not isinstance(v_, str) and isinstance(v_, ast.Subscript)
                                               and norm(v_.slice) == 'name' for v_ in vals_)
                shapes_.add((tuple(norm(x) for x in inner.args), from_tab))
            elif isinstance(inner, ast.Call) and isinstance(inner.func, ast.Subscript):
                shapes_.add((tuple(norm(x) for x in inner.args), norm(inner.func.slice) == 'name'))
        acc = {norm(node_calls(a, 'append')[0].func.value) for a in apps}
        ok = len(apps) == 2 and shapes_ == {((), True), (('self',), True)} and \
            tabs == {'self._fsm_functions[cb_type]', 'self._ct_methods[cb_type]'} and \
            len(acc) == 1 and all(norm(r.ast.value) in acc for r in rets) and bool(rets)
        # neither call is skipped because the other exists
        if ok:
            for a in apps:
                other = [x for x in apps if x is not a][0]
                ok = ok and gr.path_avoiding(gr.entry, [a], avoid=[other]) is not None or \
                    gr.dominates(other, a)
            # the second is reachable whether or not the first table had an entry
            first, second = sorted(apps, key=lambda n: n.id)
            ok = ok and gr.path_avoiding(gr.entry, [second], avoid=[first]) is not None and \
                second.id in gr.reachable_from(first)
        ck.ob(R4, rc.fid, ok, "the instance callback and the class method of the same (type, name) "
              "are both called (the method with self) and every result is returned" if ok else
              "_run_cb does not call both the instance callback and the class method for the same "
              "name, or drops a result", rc, rc.node)

    with ck.section('R03.5', backed_by='FSM._ctx_event', prefix='fsm:FSM._ctx_event'):
        # ------------------------------------------------------------------ R03.5
        init = fsm.methods['__init__']
        own(ck, R5, '_next_event', {init.fid: 'None', CTX: 'slot written / taken'})
        loops = [n for n in g.nodes if n.kind == 'for' and g.dominates(acq[0], n)
                 and isinstance(n.ast.iter, ast.Call) and call_name(n.ast.iter) == 'range']
        ok = len(loops) == 1 and norm(loops[0].ast.iter.args[0]) == 'self._ct_chainlimit' and \
            bool(loops[0].ast.orelse) and any(isinstance(s, ast.Raise) for s in loops[0].ast.orelse)
        whiles = [n for n in g.nodes if n.kind == 'test' and isinstance(n.stmt, ast.While)]
        ck.ob(R5, f"{CTX} :: bounded chain loop", ok and not whiles,
              "for _ in range(self._ct_chainlimit) ... else: raise" if ok and not whiles else
              "the chain loop is not a bounded for-range with a raising else (endless chains would "
              "hang)", ctx, loops[0].ast if loops else ctx.node)
        bt = fsm.methods.get('_build_tables')
        lim = [x for x in own_nodes(bt.node) if isinstance(x, ast.Assign) and
               norm(x.targets[0]) == 'cls._ct_chainlimit'] if bt else []
        ok = len(lim) == 1 and 'len(cls._ct_states)' in norm(lim[0].value)
        if ok:
            v = lim[0].value
            ok = isinstance(v, ast.BinOp) and isinstance(v.op, ast.Mult) and any(
                isinstance(s, ast.Constant) and isinstance(s.value, int) and s.value >= 1
                for s in (v.left, v.right))
        ck.ob(R5, "fsm:FSM._build_tables :: chain limit", ok,
              f"_ct_chainlimit = {norm(lim[0].value) if lim else None} (finite, grows with the "
              f"number of states)" if ok else "the chain limit is not a finite multiple of the number "
              "of states", bt, lim[0] if lim else (bt.node if bt else None))
        take = nodes_where(g, lambda n: isinstance(n.ast, ast.Assign) and
                           norm(n.ast.value) == 'self._next_event' and isinstance(n.ast.targets[0], ast.Tuple))
        clr = [w for w in nodes_writing_attr(g, '_next_event') if is_const(written_value(w, '_next_event'), None)]
        ok = len(take) == 1 and bool(clr) and all(g.dominates(take[0], c) for c in clr) and \
            [norm(e) for e in take[0].ast.targets[0].elts] == ['etype', 'data', 'newstate']
        ck.ob(R5, f"{CTX} :: slot taken and cleared", ok,
              "the chained request is unpacked into (etype, data, newstate) and the slot is cleared"
              if ok else "the chained request is not taken over completely or the slot is not cleared",
              ctx, take[0].ast if take else ctx.node)

    with ck.section('R03.6', backed_by='FSM._ctx_event', prefix='fsm:FSM._ctx_event'):
        # ------------------------------------------------------------------ R03.6
        sets = nodes_where(g, lambda n: any(call_name(c) == 'set' and recv(c) == 'fsm_event_data'
                                            for c in node_calls(n)))
        rebinds = nodes_where(g, lambda n: n.kind == 'stmt' and isinstance(n.ast, ast.Assign) and
                              any('data' == x.id for t in n.ast.targets for x in walk_shallow(t)
                                  if isinstance(x, ast.Name)))
        cbs = nodes_where(g, lambda n: any(call_name(c) == '_run_cb' for c in node_calls(n)))

        def ev6(n):
            ev = []
            if n in rebinds:
                ev.append('Rebind')
            if n in sets:
                ev.append('Set')
            if n in cbs:
                ev.append('CB')
            return ev
        ok, wit, st = check_language(g, "Set CB* ( Rebind Set CB* )*", ev6, [g.exit])
        ck.product_states += st['product_states']
        ck.ob(R6, f"{CTX} :: set before callbacks, re-set after re-binding", ok,
              "every callback runs with fsm_event_data set for the current event" if ok else
              f"a path runs the steps {' '.join(wit[1])}: a cond/enter/exit callback reads the data "
              f"of an earlier event through fsm_event_data", ctx, ctx.node,
              witness=path_witness(g, wit[0]) if wit else None)
        okro = bool(sets)
        for s in sets:
            c = [c for c in node_calls(s, 'set') if recv(c) == 'fsm_event_data'][0]
            arg = c.args[0] if c.args else None
            exprs = [arg]
            if isinstance(arg, ast.Name):
                rd = ck.rdefs(CTX, 'M0')
                exprs = [v for v in rd.value_exprs(s, arg.id)]
            for e in exprs:
                if isinstance(e, str):
                    okro = False
                    continue
                t = norm(e)
                if t == 'data':
                    # allowed only where data is known not to be mutable
                    if isinstance(arg, ast.Name):
                        dn = [d for d in ck.rdefs(CTX, 'M0').defs_at(s, arg.id)
                              if d.ast is not None and any(x is e for x in walk_shallow(d.ast))]
                    else:
                        dn = [s]
                    if not dn or not all(g.has_guard(d, 'isinstance(data, MutableMapping)', False) for d in dn):
                        okro = False
                elif isinstance(e, ast.IfExp):
                    okro = okro and norm(e.test) == 'isinstance(data, MutableMapping)' and \
                        norm(e.body) == 'types.MappingProxyType(data)' and norm(e.orelse) == 'data'
                else:
                    okro = okro and t == 'types.MappingProxyType(data)'
        ck.ob(R6, f"{CTX} :: read-only view of the current data", okro,
              "the context variable holds a MappingProxyType of the current event's data (or the "
              "data itself if it is not mutable)" if okro else
              "fsm_event_data is not set to a read-only view of the current `data`", ctx,
              sets[0].ast if sets else ctx.node)
        evf = fsm.methods.get('_event')
        ck.need(R6, evf is not None, "FSM._event not found")
        rets = [x for x in own_nodes(evf.node) if isinstance(x, ast.Return)]
        ok = len(rets) == 1 and norm(rets[0].value).replace(' ', '') == \
            'contextvars.copy_context().run(self._ctx_event,etype,data)'
        ck.ob(R6, evf.fid, ok, "each event is handled in a copy of the context (per-event data)"
              if ok else "FSM._event does not run _ctx_event in a fresh context copy with the event's "
              "type and data", evf, evf.node)
        callers = sorted({f.fid for f in prog.pkg_funcs() for x in own_nodes(f.node)
                          if isinstance(x, ast.Attribute) and x.attr == '_ctx_event'})
        ck.ob(R6, "who uses _ctx_event", callers == [evf.fid],
              f"_ctx_event is entered only through {callers}", evf, evf.node)


def _get_chain(a, b) -> bool:
    """`.get(specific, SENTINEL)` followed by a test is another accepted idiom; not used today."""
    return False


def _build_tables_run(ck, R7):
    """FSM._build_tables interpreted on small STATES / EVENTS tables (TIMERS empty, no callbacks): the
    resulting _ct_transition / _ct_events are compared with the documented reading of EVENTS."""
    from sa.minieval import MiniEval
    prog = ck.prog
    fsm = prog.cls('fsm:FSM')
    bt = prog.resolve_method(fsm, '_build_tables')
    ck.need(R7, bt is not None, "FSM._build_tables not found")

    def resolve(text):
        for pre in ('cls.', 'self.'):
            if text.startswith(pre) and text[len(pre):].isidentifier():
                f_ = prog.resolve_method(fsm, text[len(pre):])
                if f_ is not None and f_.cls is fsm and not prog.is_dummy(f_):
                    return f_.node
        if text.isidentifier():
            b = prog.lookup(fsm.module, text)
            if b is not None and b[0] == 'func':
                return b[1].node
        return None
    STATES = ('a', 'b', 'c')
    cases = [
        ("any-state rule, forbidding rule for one state, '|' string, sequence",
         [('e', None, 'b'), ('e', ('a',), None), ('f', 'a|b', 'c'), ('g', ['c'], 'a')],
         {('e', None): 'b', ('e', 'a'): None, ('f', 'a'): 'c', ('f', 'b'): 'c', ('g', 'c'): 'a'}, {'e', 'f', 'g'}),
        ("forbidding any-state rule", [('e', None, None)], {('e', None): None}, {'e'}),
        ("spaces around '|' names", [('e', ' a | c ', 'b')], {('e', 'a'): 'b', ('e', 'c'): 'b'}, {'e'}),
        ("specific rule listed before the any-state rule", [('e', 'b', None), ('e', None, 'a')],
         {('e', 'b'): None, ('e', None): 'a'}, {'e'}),
        ("duplicate rule for one state", [('e', 'a', 'b'), ('e', 'a|c', 'c')], 'raise', None),
        ("duplicate any-state rule", [('e', None, 'b'), ('e', None, None)], 'raise', None),
        ("unknown source state", [('e', 'x', 'b')], 'raise', None),
        ("unknown target state", [('e', 'a', 'x')], 'raise', None),
    ]
    for label, events, want_tr, want_ev in cases:
        env = {'cls': 'CLS', 'cls.STATES': STATES, 'cls.TIMERS': {}, 'cls.EVENTS': events,
               'cls._ct_handlers': {}, 'block.check_name': lambda *a: None, 'check_name': lambda *a: None,
               'vars': lambda c: {}, 'utils.time_period': lambda d: d, 'cls.__dict__': {}}
        me = MiniEval(R7, env, resolve)
        out = me.run(bt.node.body)
        ck.abstract_cases += 1
        if want_tr == 'raise':
            ok = out[0] == 'raise' and 'ValueError' in str(out[1])
            ck.ob(R7, f"{bt.fid} :: {label}", ok, "refused with ValueError" if ok else
                  f"EVENTS = {events}: not refused ({out}; table {me.env.get('cls._ct_transition')})", bt, bt.node)
        else:
            got_tr, got_ev = me.env.get('cls._ct_transition'), me.env.get('cls._ct_events')
            ok = out == ('return', None) and got_tr == want_tr and set(got_ev or ()) == want_ev
            ck.ob(R7, f"{bt.fid} :: {label}", ok,
                  f"EVENTS = {events} gives the table {want_tr}" if ok else
                  f"EVENTS = {events}: table {got_tr}, events {got_ev}, outcome {out}; documented table "
                  f"{want_tr} (a rule with target None forbids the event in that state and must shadow the "
                  "any-state rule)", bt, bt.node)
