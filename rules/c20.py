"""C20 -- Counter arithmetic is exact and stays within the modulo range (structural clauses)."""
from __future__ import annotations

import ast

from sa.loader import recv, norm, norm1, walk_shallow, own_nodes, is_super_call, call_name
from sa.rulekit import (nodes_calling, node_calls, nodes_where, own, return_nodes, kw,
                        nodes_writing_attr, must_pass)
from sa.report import path_witness

COUNTER = 'blocklib.sblocks1:Counter'

UNDECIDED = [
    "equality of the output with a reference accumulator over arbitrary event histories "
    "(Python integer/float arithmetic) -- value level, not decided",
    "float modulo behaviour (modulo=2.5) -- value level, not decided",
]


def _is_mod_by_selfmod(e) -> bool:
    return (isinstance(e, ast.BinOp) and isinstance(e.op, ast.Mod)
            and norm(e.right) == 'self._mod')


def _reduced_expr(e) -> str | None:
    """Classify an expression: 'reduced' (X % self._mod), 'cond' (None-test conditional whose
    non-None arm is reduced), 'raw' otherwise."""
    if _is_mod_by_selfmod(e):
        return 'reduced'
    if isinstance(e, ast.IfExp):
        t = norm(e.test)
        if t in ('self._mod is None', 'None is self._mod'):
            return 'cond' if _is_mod_by_selfmod(e.orelse) else 'raw'
        if t in ('self._mod is not None', 'None is not self._mod'):
            return 'cond' if _is_mod_by_selfmod(e.body) else 'raw'
        if t == 'self._mod':    # truthiness: modulo 0 is refused, so equivalent
            return 'cond' if _is_mod_by_selfmod(e.body) else 'raw'
    return 'raw'


def _arg_is_reduced(ck, fi, cfg, node, arg) -> tuple[bool, str]:
    """Is the value passed to set_output at `node` reduced modulo self._mod on every path on
    which self._mod is not None?"""
    kind = _reduced_expr(arg)
    if kind in ('reduced', 'cond'):
        return True, f"argument `{norm(arg)}` is reduced in place"
    if kind == 'raw' and not isinstance(arg, ast.Name):
        if cfg.has_guard(node, 'self._mod is None', True):
            return True, "raw value only on the path where no modulo is set"
        return False, f"argument `{norm(arg)}` is not reduced by `% self._mod`"
    rd = ck.rdefs(fi.fid)
    defs = rd.defs_at(node, arg.id)
    if not defs:
        return False, f"`{arg.id}` has no definition reaching the call"
    for d in defs:
        val = None
        if d.kind == 'stmt' and isinstance(d.ast, ast.Assign):
            val = d.ast.value
        elif d.kind == 'stmt' and isinstance(d.ast, ast.AugAssign) and \
                isinstance(d.ast.op, ast.Mod) and norm(d.ast.value) == 'self._mod':
            continue        # x %= self._mod
        if val is not None and _reduced_expr(val) in ('reduced', 'cond'):
            continue
        if d.kind != 'entry' and cfg.has_guard(d, 'self._mod is None', True):
            continue
        if cfg.has_guard(node, 'self._mod is None', True):
            continue
        what = 'the raw parameter' if d.kind == 'entry' else f"`{norm1(d.ast)}` (line {d.lineno})"
        return False, (f"`{arg.id}` may hold {what}, which is not reduced by `% self._mod` "
                       f"on a path where a modulo is set")
    return True, f"every definition of `{arg.id}` reaching the call is reduced modulo self._mod"


def _reduced_by_abstract_run(ck, rule, fi):
    """Layout-independent form of R20.1 for a one-parameter setter: with a symbolic value V and a
    symbolic modulo M (or None) the single set_output() call receives V % M (or V), and the same
    term is returned."""
    from sa.minieval import MiniEval, Sym, Term
    a = fi.node.args
    params = [x.arg for x in a.posonlyargs + a.args][1:]
    if len(params) != 1 or a.kwonlyargs:
        return False, ''
    try:
        for mod in (None, Sym('M')):
            outs = []
            env = {params[0]: Sym('V'), 'self._mod': mod, 'self.set_output': lambda v, outs=outs: outs.append(v)}
            res = MiniEval(rule, env).run(fi.node.body)
            ck.abstract_cases += 1
            want = Sym('V') if mod is None else Term(('%', Sym('V'), Sym('M')))
            if res != ('return', want) or outs != [want]:
                return False, ''
    except Exception:       # outside the fragment: this formulation abstains
        return False, ''
    return True, (f"abstract run with a symbolic value V and modulo M: set_output receives V when no "
                  f"modulo is set and V % M otherwise, and the same value is returned")


def run(ck):
    ck.explanation = (
        "Counter (edzed/blocklib/sblocks1.py): every value that can become the output passes "
        "the modulo reduction (all set_output sites of the class and the resolved "
        "init_from_value/_restore_state), every event handler returns the reduced value it "
        "stored, inc/dec use opposite operators on the current output, put requires its "
        "keyword-only value, a zero modulo is refused before the block exists. Decided on the "
        "AST/CFG of the class with reaching definitions; the arithmetic itself is not evaluated.")
    ck.undecided = UNDECIDED
    prog = ck.prog
    counter = prog.cls(COUNTER)

    R1 = ck.rule('R20.1', "every set_output() call of class Counter receives a value reduced by "
                 "`% self._mod` on all paths where a modulo is set", 'M0', 1)
    R1b = ck.rule('R20.1b', "the function that stores the output returns that same (reduced) value",
                  'M0', 1)
    R1c = ck.rule('R20.1c', "init_from_value and _restore_state of Counter resolve to a reducing "
                  "setter (initial and restored values are reduced too)", 'M0', 2)
    R1d = ck.rule('R20.1d', "no method of Counter writes self._output directly or calls "
                  "super().set_output/ SBlock.set_output bypassing the reduction", 'M0', 1)
    R2 = ck.rule('R20.2', "each of _event_inc/_event_dec/_event_put/_event_reset returns, on all "
                 "paths, the result of the reducing setter applied to the documented operand",
                 'M0', 4)
    R3 = ck.rule('R20.3', "handler signatures: amount keyword-only default 1 (inc/dec); value "
                 "keyword-only WITHOUT default (put); every _event_* handler of the package "
                 "accepts **data", 'M0', 10)
    R4 = ck.rule('R20.4', "Counter.__init__ raises ValueError under `modulo == 0` before the "
                 "modulo is stored and before super().__init__; _mod is written only there",
                 'M0', 3)

    R5 = ck.rule('R20.5', "every event returns the updated output also through the add-on wrappers of "
                 "event(): each returns the result of super().event() on every normal exit", 'M0', 1)
    with ck.section('R20.5'):
        from rules.shared import event_result_passed_on
        event_result_passed_on(ck, R5, 'blocklib.sblocks1:Counter')

    with ck.section('R20.1'):
        # ---- R20.1: reducing setters
        reducing = {}       # method name -> FuncInfo
        for name, fi in sorted(counter.methods.items()):
            cfg = ck.cfg(fi.fid)
            sites = nodes_calling(cfg, 'set_output')
            for n in sites:
                for c in node_calls(n, 'set_output'):
                    if not (isinstance(c.func, ast.Attribute) and recv(c) == 'self'):
                        ck.ob(R1d, f"{fi.fid} :: {norm1(n.ast)}", False,
                              f"set_output is called on `{recv(c)}`, not through self "
                              f"(bypasses the class's own setter chain)", fi, n.ast)
                        continue
                    ck.need(R1, len(c.args) == 1 and not c.keywords,
                            f"unrecognised set_output call shape in {fi.fid}: {norm(c)}")
                    ok, why = _arg_is_reduced(ck, fi, cfg, n, c.args[0])
                    if not ok:
                        ok2, why2 = _reduced_by_abstract_run(ck, R1, fi)
                        if ok2:
                            ok, why = True, why2
                    ck.ob(R1, f"{fi.fid} :: {norm1(n.ast)}", ok, why, fi, n.ast)
                    if ok:
                        reducing[name] = fi
                        # R20.1b: returns the same value
                        rets = return_nodes(cfg)
                        good = bool(rets) and all(
                            r.ast.value is not None and norm(r.ast.value) == norm(c.args[0])
                            for r in rets)
                        path = must_pass(cfg, cfg.entry, rets, [cfg.exit])
                        ck.ob(R1b, fi.fid, good and path is None,
                              (f"returns `{norm(c.args[0])}`, the value passed to set_output"
                               if good and path is None else
                               f"{fi.fid} does not return the stored value `{norm(c.args[0])}` "
                               f"on every path (returns: "
                               f"{[norm(r.ast.value) for r in rets] or 'implicit None'})"),
                              fi, fi.node, witness=path_witness(cfg, path))
        ck.need(R1, reducing, "no reducing setter (a Counter method passing `x % self._mod` to "
                "set_output) found")

    with ck.section('R20.1d'):
        # ---- R20.1d: no direct writes of _output
        n_direct = 0
        for name, fi in sorted(counter.methods.items()):
            cfg = ck.cfg(fi.fid)
            for n in nodes_writing_attr(cfg, '_output', base=None):
                n_direct += 1
                ck.ob(R1d, f"{fi.fid} :: {norm1(n.ast)}", False,
                      "Counter writes _output directly (no modulo reduction, no change notification)",
                      fi, n.ast)
        ck.ob(R1d, COUNTER, n_direct == 0, f"{len(counter.methods)} methods scanned, "
              f"{n_direct} direct writes of _output", None, f"{counter.module.path}:{counter.node.lineno}")

    with ck.section('R20.1c'):
        # ---- R20.1c: aliases
        def routes_to_reducing(fi, depth=0) -> tuple[bool, str]:
            if fi is None:
                return False, "not defined"
            if prog.is_dummy(fi):
                return False, "resolves to the dummy placeholder"
            if fi.cls is not counter and fi.name not in ('event',):
                # inherited from a base: only acceptable if it routes through self.event(...)
                pass
            if fi.name in reducing and fi is reducing[fi.name]:
                return True, f"is the reducing setter {fi.fid}"
            if depth > 3:
                return False, "call chain too deep"
            cfg = ck.cfg(fi.fid)
            if nodes_calling(cfg, 'set_output') or nodes_writing_attr(cfg, '_output', None):
                return False, f"{fi.fid} sets the output itself without the reduction"
            cands = []
            for n in nodes_where(cfg, lambda n: True):
                for c in node_calls(n):
                    if isinstance(c.func, ast.Attribute) and recv(c) == 'self':
                        if c.func.attr in reducing:
                            cands.append(n)
                        elif c.func.attr == 'event':
                            cands.append(n)
            if cands and must_pass(cfg, cfg.entry, cands, [cfg.exit]) is None:
                return True, f"{fi.fid} reaches the output only through a reducing setter / event()"
            return False, f"{fi.fid} does not route the value through a reducing setter on all paths"

        for hook in ('init_from_value', '_restore_state'):
            target = prog.resolve_method(counter, hook)
            ok, why = routes_to_reducing(target)
            ck.ob(R1c, f"{COUNTER}.{hook}", ok, f"{hook} -> {why}", target,
                  target.node if target is not None else None)

    with ck.section('R20.2'):
        # ---- R20.2: handlers
        expect = {
            '_event_inc': ('binop', ast.Add),
            '_event_dec': ('binop', ast.Sub),
            '_event_put': ('param', 'value'),
            '_event_reset': ('expr', 'self.initdef'),
        }
        for hname, (kind, want) in expect.items():
            fi = counter.methods.get(hname)
            ck.need(R2, fi is not None, f"handler {COUNTER}.{hname} not found")
            cfg = ck.cfg(fi.fid)
            rets = return_nodes(cfg)
            implicit = must_pass(cfg, cfg.entry, rets, [cfg.exit])
            problems = []
            if implicit is not None:
                problems.append("a path ends without `return` (the event would return None)")
            for r in rets:
                v = r.ast.value
                call = v
                if isinstance(v, ast.Name):
                    vals = ck.rdefs(fi.fid).value_exprs(r, v.id)
                    call = vals[0] if len(vals) == 1 and not isinstance(vals[0], str) else v
                if not (isinstance(call, ast.Call) and isinstance(call.func, ast.Attribute)
                        and recv(call) == 'self' and call.func.attr in reducing
                        and len(call.args) == 1):
                    problems.append(f"`{norm1(r.ast)}` does not return the reducing setter's result")
                    continue
                arg = call.args[0]
                if kind == 'binop':
                    other = ast.Sub if want is ast.Add else ast.Add
                    if not (isinstance(arg, ast.BinOp) and isinstance(arg.op, want)):
                        problems.append(
                            f"operand `{norm(arg)}` does not combine output and amount with "
                            f"{'+' if want is ast.Add else '-'}"
                            + (" (uses the opposite operator)" if isinstance(arg, ast.BinOp)
                               and isinstance(arg.op, other) else ""))
                    else:
                        l, rr = norm(arg.left), norm(arg.right)
                        outs = ('self._output', 'self.output')
                        if want is ast.Add:
                            good = (l in outs and rr == 'amount') or (rr in outs and l == 'amount')
                        else:
                            good = l in outs and rr == 'amount'
                        if not good:
                            problems.append(f"operand `{norm(arg)}` is not <current output> "
                                            f"{'+' if want is ast.Add else '-'} amount")
                elif kind == 'param':
                    if norm(arg) != want:
                        problems.append(f"operand `{norm(arg)}` is not the event's `{want}` item")
                else:
                    if norm(arg) != want:
                        problems.append(f"operand `{norm(arg)}` is not `{want}`")
            ck.ob(R2, fi.fid, not problems,
                  "returns the reducing setter's result for the documented operand on all paths"
                  if not problems else '; '.join(problems), fi, fi.node,
                  witness=path_witness(cfg, implicit))

    with ck.section('R20.3'):
        # ---- R20.3: signatures
        def kwonly(fi, name):
            a = fi.node.args
            for arg, default in zip(a.kwonlyargs, a.kw_defaults):
                if arg.arg == name:
                    return True, default
            return False, None

        for hname in ('_event_inc', '_event_dec'):
            fi = counter.methods[hname]
            present, default = kwonly(fi, 'amount')
            ok = present and isinstance(default, ast.Constant) and default.value == 1 \
                and not isinstance(default.value, bool)
            ck.ob(R3, f"{fi.fid}(amount)", ok,
                  "amount is keyword-only with default 1" if ok else
                  f"amount must be keyword-only with default 1 "
                  f"(found: present={present}, default={norm(default) if default is not None else None})",
                  fi, fi.node)
        fi = counter.methods['_event_put']
        present, default = kwonly(fi, 'value')
        ok = present and default is None
        ck.ob(R3, f"{fi.fid}(value)", ok,
              "value is keyword-only and has no default (a put lacking it fails in the call itself)"
              if ok else "value must be a required keyword-only parameter of _event_put "
              f"(found: present={present}, default={norm(default) if default is not None else None})",
              fi, fi.node)
        for ci in prog.pkg_classes():
            for mname, mfi in sorted(ci.methods.items()):
                if mname.startswith('_event_'):
                    has_kw = mfi.node.args.kwarg is not None
                    ck.ob(R3, f"{mfi.fid}(**data)", has_kw,
                          "accepts arbitrary data items (**kwargs)" if has_kw else
                          f"{mfi.fid} does not accept **data: any extra event item (e.g. 'source') "
                          f"would be reported as a parameter error", mfi, mfi.node)

    with ck.section('R20.4'):
        # ---- R20.4: zero modulo
        init = counter.methods.get('__init__')
        ck.need(R4, init is not None, "Counter.__init__ not found")
        cfg = ck.cfg(init.fid)
        writes = nodes_writing_attr(cfg, '_mod')
        ck.need(R4, writes, "Counter.__init__ does not store self._mod")
        # layout-independent decision: abstract run of the constructor
        from sa.minieval import MiniEval
        init_run_ok = None
        try:
            bad_ = []
            a_ = init.node.args
            for mod_ in (0, 0.0, None, 5, -3, 2.5):
                order = []
                env = {'float': float, 'int': int, 'modulo': mod_, 'initdef': 0, '__setattr__': lambda k, v, order=order: order.append(('set', k, v)),
                       'super().__init__': lambda *aa, order=order, **kk: order.append(('super', kk.get('initdef')))}
                if a_.vararg:
                    env[a_.vararg.arg] = ()
                if a_.kwarg:
                    env[a_.kwarg.arg] = {}
                res = MiniEval(R4, env).run(init.node.body)
                ck.abstract_cases += 1
                if mod_ == 0:
                    good = res == ('raise', 'ValueError') and not any(o[0] == 'super' for o in order)
                else:
                    # the stored modulo is the given object: an int must stay an int (Python reduces
                    # `int % float` in floating point, which is inexact above 2**53)
                    stored_ = [i_ for i_, o in enumerate(order) if o[:2] == ('set', 'self._mod') and
                               type(o[2]) is type(mod_) and o[2] == mod_]
                    good = res[0] == 'return' and bool(stored_) and \
                        ('super', 0) in order and stored_[0] < order.index(('super', 0)) and \
                        not any(o[:2] == ('set', 'self._mod') and type(o[2]) is not type(mod_) for o in order)
                if not good:
                    bad_.append(f"modulo={mod_!r}: {res}, effects {order}")
            init_run_ok = not bad_
            ck.ob(R4, f"{init.fid} :: abstract run", init_run_ok,
                  "a zero modulo raises ValueError before the block is registered; any other modulo "
                  "(None included) is stored unchanged - an int stays an int - before super().__init__ runs" if init_run_ok else "; ".join(bad_),
                  init, init.node)
        except Exception as err:
            ck.note(f"R20.4 abstract run not applicable: {err}")
        raises = nodes_where(cfg, lambda n: isinstance(n.ast, ast.Raise)
                             and cfg.has_guard(n, 'modulo == 0', True))
        ck.ob(R4, f"{init.fid} :: raise under modulo == 0", bool(raises) or bool(init_run_ok),
              "a raise statement is guarded by `modulo == 0`" if raises else
              "no raise statement is guarded by `modulo == 0`: a zero modulo is not refused",
              init, init.node)
        for w in writes:
            ok = cfg.has_guard(w, 'modulo == 0', False)
            v = w.ast.value if isinstance(w.ast, ast.Assign) else None
            from_param = v is not None and norm(v) == 'modulo'
            ck.ob(R4, f"{init.fid} :: {norm1(w.ast)}", (ok and from_param) or bool(init_run_ok),
                  "stored only after the zero test failed; value is the parameter" if ok and from_param
                  else ("self._mod is stored on a path where modulo == 0 was not excluded" if not ok
                        else f"self._mod is not the `modulo` parameter but `{norm(v)}`"),
                  init, w.ast)
        sup = nodes_where(cfg, lambda n: any(is_super_call(c, '__init__') for c in node_calls(n)))
        for s in sup:
            ok = cfg.has_guard(s, 'modulo == 0', False)
            ck.ob(R4, f"{init.fid} :: super().__init__", ok or bool(init_run_ok),
                  "the block is registered only after the zero test" if ok else
                  "super().__init__() (which registers the block in the circuit) runs before the "
                  "zero-modulo test", init, s.ast)
        own(ck, R4, '_mod', {init.fid: 'constructor'},
            ignore=lambda fi, tgt, st: fi is not None and fi.module.name == 'demo')
