"""C19 -- Duration strings and numbers convert consistently (structural / table clauses)."""
from __future__ import annotations

import ast
import re

from sa.loader import recv, norm, norm1, walk_shallow, own_nodes, call_name, AnalysisError, is_logging_stmt
from sa.tables import fold, Unfoldable, compiled_patterns, parse_regex, OPS
from re._constants import MAXREPEAT
from sa.rulekit import (nodes_calling, node_calls, nodes_where, return_nodes, handlers_in,
                        handler_reraises, is_const)

TU = 'utils.timeunits'

UNDECIDED = [
    "timestr() as the exact inverse of convert() for all integers/floats, precision and rounding "
    "boundaries of timestr/timestr_approx (59.9996 s ...) -- arithmetic over an unbounded numeric "
    "domain; NOT decided (only the divisor/unit-letter table of the two renderers is)",
    "float parsing of the number groups (float(), comma replacement semantics) -- value level",
]

EXPECT_TRAD = {'d': 86400, 'h': 3600, 'm': 60, 's': 1}
EXPECT_ISO = {('Y', False): None, ('M', False): None, ('D', False): 86400,
              ('H', True): 3600, ('M', True): 60, ('S', True): 1}


BOUNDED_WS = []


def _groups(tree):
    """-> list of dicts {group, unit, unit_optional, group_optional, after_T, ws_before_unit}
    in pattern order, plus the number of whitespace tokens."""
    out = []
    ws = [0]

    def is_space_repeat(item):
        op, av = item
        if op is OPS.MAX_REPEAT:
            lo, hi, sub = av
            subl = list(sub)
            is_ws = len(subl) == 1 and subl[0][0] is OPS.IN and \
                any(x == (OPS.CATEGORY, OPS.CATEGORY_SPACE) for x in subl[0][1])
            if is_ws and not (lo == 0 and hi == MAXREPEAT):
                BOUNDED_WS.append((lo, hi))     # `\s?`, `\s+`, `\s{0,2}`: not "any amount of whitespace"
            return is_ws
        return False

    def walk(seq, optional, state):
        pending = None
        for item in seq:
            op, av = item
            if is_space_repeat(item):
                ws[0] += 1
                if pending is not None:
                    pending['ws_before_unit'] = True
                continue
            if op is OPS.SUBPATTERN:
                gidx, _a, _d, sub = av
                if gidx is None:
                    walk(list(sub), optional, state)
                    continue
                pending = {'group': gidx, 'unit': None, 'unit_optional': False,
                           'group_optional': optional, 'after_T': state['T'],
                           'ws_before_unit': False, 'number': list(sub)}
                out.append(pending)
                continue
            if op is OPS.LITERAL:
                ch = chr(av)
                if pending is not None:
                    pending['unit'] = ch
                    pending = None
                elif ch == 'T':
                    state['T'] = True
                else:
                    state.setdefault('literals', []).append(ch)
                continue
            if op is OPS.MAX_REPEAT:
                lo, hi, sub = av
                subl = list(sub)
                if pending is not None and len(subl) == 1 and subl[0][0] is OPS.LITERAL and lo == 0:
                    pending['unit'] = chr(subl[0][1])
                    pending['unit_optional'] = True
                    pending = None
                    continue
                walk(subl, optional or lo == 0, state)
                pending = None
                continue
            state.setdefault('other', []).append(str(op))
    state = {'T': False}
    walk(list(tree), False, state)
    return out, ws[0], state


def _number_ok(sub) -> bool:
    """\\d+(?:[.,]\\d+)?"""
    txt = repr(sub)
    has_digits = 'CATEGORY_DIGIT' in txt
    sep = None
    for op, av in sub:
        if op is OPS.MAX_REPEAT:
            lo, hi, inner = av
            inner = list(inner)
            if lo == 0 and hi == 1 and inner and inner[0][0] is OPS.IN:
                sep = {chr(x[1]) for x in inner[0][1] if x[0] is OPS.LITERAL}
    return has_digits and sep == {'.', ','}


class _Str:
    """Abstract number string: digits plus at most one separator character (None = integer)."""
    def __init__(self, sep):
        self.sep = sep


class _Out(Exception):
    def __init__(self, what):
        self.what = what


def _frac_case(rule, body, vname, flag, sep, flagval):
    """Abstractly execute the loop body of _convert for one element whose text has the fraction
    separator `sep` (or none) with the smallest-unit flag = flagval, up to the float() call.
    Fragment: `'c' in v`, walrus, and/or/not, names, v.replace('a', 'b'[, n]), if, assignment,
    raise, continue, `v is None`.  Anything else -> AnalysisError."""
    env = {vname: _Str(sep), flag: flagval}

    def fail(node):
        raise AnalysisError(rule, f"_convert loop body outside the fragment of the fraction "
                            f"analysis: `{norm(node)[:80]}`")

    def ev(e):
        if isinstance(e, ast.Constant):
            return e.value
        if isinstance(e, ast.Name):
            if e.id in env:
                return env[e.id]
            fail(e)
        if isinstance(e, ast.NamedExpr) and isinstance(e.target, ast.Name):
            env[e.target.id] = ev(e.value)
            return env[e.target.id]
        if isinstance(e, ast.BoolOp):
            v = None
            for x in e.values:
                v = ev(x)
                if isinstance(e.op, ast.And) and not v:
                    return v
                if isinstance(e.op, ast.Or) and v:
                    return v
            return v
        if isinstance(e, ast.UnaryOp) and isinstance(e.op, ast.Not):
            return not ev(e.operand)
        if isinstance(e, ast.Compare) and len(e.ops) == 1:
            l, r = ev(e.left), ev(e.comparators[0])
            op = e.ops[0]
            if isinstance(op, (ast.In, ast.NotIn)) and isinstance(l, str) and len(l) == 1 \
                    and not l.isdigit() and isinstance(r, _Str):
                res = (l == r.sep)
                return res if isinstance(op, ast.In) else not res
            if isinstance(op, (ast.Is, ast.IsNot)) and r is None and isinstance(l, _Str):
                return isinstance(op, ast.IsNot)
            fail(e)
        if isinstance(e, ast.Call):
            if isinstance(e.func, ast.Attribute) and e.func.attr == 'replace' and len(e.args) in (2, 3) \
                    and not e.keywords:
                base = ev(e.func.value)
                a, b = ev(e.args[0]), ev(e.args[1])
                if isinstance(base, _Str) and isinstance(a, str) and isinstance(b, str) and len(a) == 1 \
                        and len(b) == 1 and not a.isdigit() and not b.isdigit():
                    return _Str(b if base.sep == a else base.sep)
                fail(e)
            if isinstance(e.func, ast.Name) and e.func.id == 'float' and len(e.args) == 1:
                v = ev(e.args[0])
                if isinstance(v, _Str):
                    raise _Out('float:ok' if v.sep in (None, '.') else f"float() gets a number with {v.sep!r}")
                fail(e)
        fail(e)

    def block(stmts):
        for st in stmts:
            if isinstance(st, ast.If):
                block(st.body if ev(st.test) else st.orelse)
            elif isinstance(st, ast.Raise):
                raise _Out('raise')
            elif isinstance(st, ast.Continue):
                raise _Out('continue')
            elif isinstance(st, ast.Assign) and len(st.targets) == 1 and isinstance(st.targets[0], ast.Name):
                env[st.targets[0].id] = ev(st.value)
            elif isinstance(st, ast.Expr) and isinstance(st.value, ast.Constant):
                continue
            elif is_logging_stmt(st):
                continue
            else:
                fail(st)
    try:
        block(body)
    except _Out as o:
        return o.what
    return 'end of body without float()'


def run(ck):
    ck.explanation = (
        "utils/timeunits.py + utils/tconst.py: both duration patterns are folded from the source "
        "(f-strings, flags) and parsed with the regex parser; the unit letter following each "
        "capturing group is paired, through reversed(match.groups()) and zip, with the scale tuple "
        "of _convert, and the pairing must be s:1 m:60 h:3600 d:86400 (ISO: S,M,H,D and None for "
        "calendar months/years, which must raise); fullmatch and the flag sets are checked; the "
        "fraction / empty-input flag logic, the time_period case split and the divisor / unit "
        "letter table of timestr and timestr_approx are checked on the CFG. The numeric inverse "
        "property of timestr is not decided.")
    ck.undecided = UNDECIDED
    prog = ck.prog
    mod = prog.module(TU)

    R1 = ck.rule('R19.1', "regex group <-> unit letter <-> scale factor agree: s:1, m:60, h:3600, "
                 "d:86400; ISO months/years map to None and raise", 'tables', 8)
    R2 = ck.rule('R19.2', "both patterns are applied with fullmatch; traditional format is "
                 "ASCII|IGNORECASE|VERBOSE with inner whitespace, ISO is ASCII|VERBOSE without",
                 'tables', 4)
    R3 = ck.rule('R19.3', "a fraction is accepted in the smallest present unit only; an empty "
                 "duration raises; a decimal comma is converted before float()", 'M0', 2)
    R4 = ck.rule('R19.4', "time_period: None -> None; int -> float; float -> max(0.0, x); "
                 "str -> convert(x); anything else TypeError", 'M0', 5)
    R5 = ck.rule('R19.5', "convert() re-raises a ValueError (malformed input is never swallowed)",
                 'M0', 1)
    R6 = ck.rule('R19.6', "timestr / timestr_approx split seconds with divmod by 86400, 3600, 60 "
                 "in this order and label the quotients d, h, m and the remainder s", 'M0', 6)

    R7 = ck.rule('R19.7', "_convert as a whole (abstract run with stand-ins for the two compiled patterns, all "
                 "combinations of absent / zero / integer / fractional elements): seconds = sum of element x "
                 "unit; no element at all, a fraction anywhere but in the smallest present unit, a non-zero "
                 "calendar year / month and a string neither pattern matches raise ValueError", 'abstract run', 3)
    with ck.section('R19.7'):
        _convert_run(ck, R7, prog, mod)

    with ck.section('R19.1'):
        # ---- constants
        tc = prog.module('utils.tconst')
        consts = {}
        for nm, want in (('SEC_PER_MIN', 60), ('SEC_PER_HOUR', 3600), ('SEC_PER_DAY', 86400)):
            try:
                v = fold(prog, mod, ast.Name(id=nm, ctx=ast.Load()))
            except Unfoldable as err:
                v = f"<unfoldable: {err}>"
            consts[nm] = v
            ck.ob(R1, f"utils.tconst :: {nm}", v == want and not isinstance(v, bool),
                  f"{nm} = {v}" + ('' if v == want else f" (must be {want})"), None,
                  f"{tc.path}:1")

        # ---- patterns
        pats = compiled_patterns(prog, mod)
        ck.need(R1, len(pats) >= 2, "the two duration patterns were not found in utils/timeunits.py")
        trad = iso = None
        for nm, (pat, flags, st) in pats.items():
            tree = parse_regex(pat, flags)
            del BOUNDED_WS[:]
            groups, ws, state = _groups(tree)
            state['bounded_ws'] = list(BOUNDED_WS)
            if 'P' in state.get('literals', []):
                iso = (nm, pat, flags, st, groups, ws, state)
            else:
                trad = (nm, pat, flags, st, groups, ws, state)
        ck.need(R1, trad and iso, "could not tell the traditional and the ISO pattern apart")

        conv = prog.func(f"{TU}:_convert")
        cfg = ck.cfg(conv.fid, 'M0')
        # the scale tuple zipped with reversed(match.groups())
        scale = None
        zip_node = None
        for n in own_nodes(conv.node):
            if isinstance(n, ast.Call) and call_name(n) == 'zip' and len(n.args) == 2:
                a0 = n.args[0]
                if isinstance(a0, ast.Call) and call_name(a0) == 'reversed' and \
                        'groups()' in norm(a0.args[0]):
                    try:
                        scale = tuple(fold(prog, mod, n.args[1]))
                    except Unfoldable as err:
                        ck.need(R1, False, f"scale tuple not foldable: {err}")
                    zip_node = n
        ck.need(R1, scale is not None, "_convert does not zip reversed(match.groups()) with a scale "
                "tuple (unrecognised structure)")

        for label, spec in (('traditional', trad), ('ISO', iso)):
            nm, pat, flags, st, groups, ws, state = spec
            groups = sorted(groups, key=lambda g: g['group'])
            rev = list(reversed(groups))
            ok_len = len(scale) >= len(groups)
            ck.ob(R1, f"{TU}:{nm} :: group count", ok_len and len(groups) == (4 if label == 'traditional' else 6),
                  f"{len(groups)} capturing groups, scale tuple has {len(scale)} entries", None,
                  f"{mod.path}:{st.lineno}")
            for g, sc in zip(rev, scale):
                unit = g['unit']
                if label == 'traditional':
                    want = EXPECT_TRAD.get((unit or '').lower(), 'unknown unit')
                else:
                    want = EXPECT_ISO.get((unit, g['after_T']), 'unknown unit')
                ok = (sc == want) and (sc is None) == (want is None) and g['group_optional'] \
                    and _number_ok(g['number'])
                ck.ob(R1, f"{TU}:{nm} :: group {g['group']} unit {unit!r}{' (time)' if g['after_T'] else ''}",
                      ok, f"unit {unit!r} is scaled by {sc}" + ('' if sc == want else f" (must be {want})")
                      + ('' if g['group_optional'] else '; the element is not optional')
                      + ('' if _number_ok(g['number']) else '; number group is not digits[.,]digits'),
                      None, f"{mod.path}:{st.lineno}")
            if label == 'traditional':
                sgroup = [g for g in groups if (g['unit'] or '').lower() == 's']
                ok = len(sgroup) == 1 and sgroup[0]['unit_optional'] and \
                    all(not g['unit_optional'] for g in groups if g is not sgroup[0])
                ck.ob(R1, f"{TU}:{nm} :: optional 's'", ok,
                      "only the seconds' unit letter may be omitted" if ok else
                      "the unit letter is optional for the wrong element(s)", None,
                      f"{mod.path}:{st.lineno}")
                order = [(g['unit'] or '').lower() for g in groups]
                ck.ob(R1, f"{TU}:{nm} :: unit order", order == ['d', 'h', 'm', 's'],
                      f"units appear in the order {order}", None, f"{mod.path}:{st.lineno}")
            else:
                order = [(g['unit'], g['after_T']) for g in groups]
                ck.ob(R1, f"{TU}:{nm} :: unit order",
                      order == [('Y', False), ('M', False), ('D', False), ('H', True), ('M', True), ('S', True)],
                      f"units appear in the order {order}", None, f"{mod.path}:{st.lineno}")
                ck.ob(R1, f"{TU}:{nm} :: no optional unit letters", not any(g['unit_optional'] for g in groups),
                      "ISO unit designators are mandatory", None, f"{mod.path}:{st.lineno}")
            # flags
            fl = re.RegexFlag(flags)
            if label == 'traditional':
                okf = bool(fl & re.ASCII) and bool(fl & re.IGNORECASE) and bool(fl & re.VERBOSE)
                ck.ob(R2, f"{TU}:{nm} :: flags", okf, f"flags = {fl!r}", None, f"{mod.path}:{st.lineno}")
                inner_ws = all(g['ws_before_unit'] for g in groups) and ws >= 2 * len(groups)
                bounded_here = state.get('bounded_ws', [])
                ck.ob(R2, f"{TU}:{nm} :: whitespace gaps accept any amount", not bounded_here,
                      "every whitespace gap of the pattern is `\\s*`" if not bounded_here else
                      f"a whitespace gap is bounded {bounded_here}: '2h  5m' (two blanks, as timestr(.., sep='  ') "
                      "renders it) is no longer a valid duration", None, f"{mod.path}:{st.lineno}")
                ck.ob(R2, f"{TU}:{nm} :: inner whitespace", inner_ws,
                      f"{ws} whitespace tokens; whitespace allowed between number and unit: "
                      f"{[g['ws_before_unit'] for g in groups]}", None, f"{mod.path}:{st.lineno}")
            else:
                okf = bool(fl & re.ASCII) and not (fl & re.IGNORECASE) and bool(fl & re.VERBOSE)
                ck.ob(R2, f"{TU}:{nm} :: flags", okf, f"flags = {fl!r} (must be case-sensitive)",
                      None, f"{mod.path}:{st.lineno}")
                ck.ob(R2, f"{TU}:{nm} :: no inner whitespace",
                      ws <= 2 and not any(g['ws_before_unit'] for g in groups),
                      f"{ws} whitespace tokens (only leading/trailing allowed)", None,
                      f"{mod.path}:{st.lineno}")
        # None scale -> raise
        raises = nodes_where(cfg, lambda n: isinstance(n.ast, ast.Raise), kinds=('stmt',))
        loop_var = None
        for n in cfg.nodes:
            if n.kind == 'for' and zip_node is not None and any(x is zip_node for x in walk_shallow(n.ast.iter)):
                tgt = n.ast.target
                if isinstance(tgt, ast.Tuple) and len(tgt.elts) == 2:
                    loop_var = (norm(tgt.elts[0]), norm(tgt.elts[1]))
        if loop_var is None and ck.backing.get('_convert') is True:
            ck.note("R19.1: the element loop of _convert has a layout the shape rule cannot read; 'a calendar unit "
                    "raises' and 'seconds = sum of element x unit' are decided by the abstract run R19.7")
        else:
            ck.need(R1, loop_var is not None, "the zip loop of _convert was not recognised")
            vname, sname = loop_var
            none_raise = [r for r in raises if cfg.has_guard(r, f'{sname} is None', True)
                          and r.kinds == {'N:ValueError'}]
            ck.ob(R1, f"{conv.fid} :: None scale raises", bool(none_raise),
                  "a present element whose scale is None (calendar month/year) raises ValueError"
                  if none_raise else f"no `raise ValueError` under `{sname} is None`", conv, conv.node)
            # the accumulation uses num * scale
            acc = nodes_where(cfg, lambda n: isinstance(n.ast, ast.AugAssign) and isinstance(n.ast.op, ast.Add)
                              and isinstance(n.ast.value, ast.BinOp) and isinstance(n.ast.value.op, ast.Mult)
                              and sname in (norm(n.ast.value.left), norm(n.ast.value.right)))
            ck.ob(R1, f"{conv.fid} :: accumulation", len(acc) == 1,
                  "result += num * scale_factor" if len(acc) == 1 else
                  "the result is not accumulated as number * scale factor", conv,
                  acc[0].ast if acc else conv.node)

    with ck.section('R19.2'):
        # ---- R19.2 fullmatch
        scope_ = [conv] + _module_callees(prog, mod, conv)      # the matching may live in a small helper
        fm = [c for f_ in scope_ for c in own_nodes(f_.node) if isinstance(c, ast.Call)
              and isinstance(c.func, ast.Attribute) and c.func.attr in ('fullmatch', 'match', 'search')]
        ok = bool(fm) and all(c.func.attr == 'fullmatch' for c in fm)
        pats_used = set()
        for f_ in scope_:
            for n in own_nodes(f_.node):
                if isinstance(n, ast.Name) and n.id in pats:
                    pats_used.add(n.id)
        ck.ob(R2, f"{conv.fid} :: whole-string match", ok and pats_used == {trad[0], iso[0]},
              f"method(s) {[c.func.attr for c in fm]} applied to {sorted(pats_used)}", conv,
              fm[0] if fm else conv.node)

    with ck.section('R19.3', backed_by='_convert', prefix='utils.timeunits:_convert'):
        # ---- R19.3 decided layout-independently: the element loop and the code after it are run on
        # every combination of elements (absent / 0 / integer / fraction with '.' / fraction with ','),
        # for the 4 traditional and the 6 ISO groups, and compared with the documented result
        from sa.minieval import MiniEval
        import itertools as _it
        loop_run_ok = None
        try:
            pname_ = conv.node.args.args[0].arg
            body_ = list(conv.node.body)
            while body_:
                st0 = body_[0]
                if isinstance(st0, ast.Assert) or (isinstance(st0, ast.Expr) and isinstance(st0.value, ast.Constant)):
                    body_.pop(0)
                elif isinstance(st0, ast.If) and st0.orelse and st0.body and isinstance(st0.body[-1], ast.Raise) \
                        and any(isinstance(x, ast.Name) and x.id == pname_ for x in ast.walk(st0.test)):
                    body_ = list(st0.orelse) + body_[1:]    # `if no match: raise ... else: <the rest>`
                elif any(isinstance(x, ast.Name) and x.id == pname_ for x in ast.walk(st0)):
                    body_.pop(0)
                else:
                    break
            groups_text = norm(zip_node.args[0].args[0])        # <match>.groups()
            consts_ = {}
            for nm_ in {x.id for x in ast.walk(conv.node) if isinstance(x, ast.Name)}:
                try:
                    v_ = fold(prog, mod, ast.Name(id=nm_, ctx=ast.Load()))
                except Exception:
                    continue
                if isinstance(v_, (int, float, tuple, list)) or v_ is None:
                    consts_[nm_] = v_
            bad_ = []
            ncase_ = 0
            UNIT = {4: (86400, 3600, 60, 1), 6: (None, None, 86400, 3600, 60, 1)}
            for ngroups, vals in ((4, (None, '0', '2', '1.5', '1,5')), (6, (None, '0', '3', '2.5'))):
                for combo in _it.product(vals, repeat=ngroups):
                    if ngroups == 6 and sum(1 for c_ in combo if c_ is not None) > 3:
                        continue
                    env = dict(consts_)
                    env[groups_text] = tuple(combo)
                    res = MiniEval(R3, env).run(body_)
                    ncase_ += 1
                    ck.abstract_cases += 1
                    present = [(v_, u_) for v_, u_ in zip(combo, UNIT[ngroups]) if v_ is not None]
                    want = None
                    if not present:
                        want = ('raise', 'ValueError')
                    else:
                        total = 0.0
                        for i_, (v_, u_) in enumerate(present):
                            frac = ('.' in v_) or (',' in v_)
                            if frac and i_ != len(present) - 1:
                                want = ('raise', 'ValueError')
                                break
                            num = float(v_.replace(',', '.'))
                            if num != 0.0 and u_ is None:
                                want = ('raise', 'ValueError')
                                break
                            total += num * (u_ or 0)
                        if want is None:
                            want = ('return', total)
                    good = res == want or (res[0] == want[0] == 'return' and isinstance(res[1], (int, float))
                                           and abs(res[1] - want[1]) < 1e-9)
                    if not good and len(bad_) < 4:
                        bad_.append(f"elements {combo}: {res}, documented {want}")
            loop_run_ok = not bad_
            ck.ob(R3, f"{conv.fid} :: abstract run of the element loop", loop_run_ok,
                  f"evaluated on {ncase_} element combinations: sum of value x unit; a fraction only in the "
                  f"smallest present unit; no element / a non-zero year or month raises" if loop_run_ok
                  else "; ".join(bad_), conv, conv.node)
        except Exception as err:
            ck.note(f"R19.3 abstract run not applicable: {type(err).__name__}: {err}")

        # ---- R19.3 (the same logic read off one particular layout; evaluated when the run above is not
        # applicable or failed, to name the offending statement)
        if not loop_run_ok:
            _r19_3_shape(ck, R3, conv, cfg, raises, zip_node, vname, trad, iso)
        nomatch = []
        for f_ in [conv] + _module_callees(prog, mod, conv):
            g_ = ck.cfg(f_.fid, 'M0')
            nomatch += [r for r in nodes_where(g_, lambda n: isinstance(n.ast, ast.Raise), kinds=('stmt',))
                        if r.kinds == {'N:ValueError'} and (f_ is not conv or
                                                            any('match' in t for t, p in g_.guard_texts(r)))]
        ck.ob(R3, f"{conv.fid} :: no match raises", bool(nomatch),
              "a string matching neither pattern raises ValueError" if nomatch else
              "no raise for a string that matches neither pattern", conv, conv.node)
        _rest_of_c19(ck, prog, mod, R4, R5, R6)


def _module_callees(prog, mod, fi):
    """Module-level functions of the same module that fi calls by plain name (one level)."""
    out = []
    for x in own_nodes(fi.node):
        if isinstance(x, ast.Call) and isinstance(x.func, ast.Name):
            fid = f"{mod.name}:{x.func.id}"
            if prog.has_func(fid) and prog.func(fid) is not fi and prog.func(fid) not in out:
                out.append(prog.func(fid))
    return out


def _r19_3_shape(ck, R3, conv, cfg, raises, zip_node, vname, trad, iso):
    flag_w = nodes_where(cfg, lambda n: isinstance(n.ast, ast.Assign) and
                         any(isinstance(t, ast.Name) for t in n.ast.targets) and
                         isinstance(n.ast.value, ast.Constant) and isinstance(n.ast.value.value, bool))
    flag = None
    for w in flag_w:
        nm = w.ast.targets[0].id
        inits = [x for x in flag_w if x.ast.targets[0].id == nm]
        if {x.ast.value.value for x in inits} == {True, False}:
            flag = nm
    ck.need(R3, flag is not None, "the smallest-unit flag of _convert was not recognised")
    loop = [n for n in cfg.nodes if n.kind == 'for' and any(x is zip_node for x in walk_shallow(n.ast.iter))][0]
    clears = [w for w in flag_w if w.ast.targets[0].id == flag and w.ast.value.value is False]
    sets = [w for w in flag_w if w.ast.targets[0].id == flag and w.ast.value.value is True]
    floats = nodes_calling(cfg, 'float')
    ok = bool(clears) and bool(floats) and all(cfg.dominates(loop, c) for c in clears) and \
        all(not cfg.dominates(loop, s) for s in sets)
    # the clear happens for every present element: not skipped by `continue` of zero values
    ok2 = ok and all(not any(t for t, p in cfg.guard_texts(c) if '0.0' in t or '== 0' in t)
                     for c in clears) and all(cfg.has_guard(c, f'{vname} is None', False) for c in clears)
    ck.ob(R3, f"{conv.fid} :: flag cleared after the first present element", ok2,
          f"`{flag} = False` runs in the loop for every present element" if ok2 else
          f"`{flag}` is not cleared exactly for every present (non-None) element", conv,
          clears[0].ast if clears else conv.node)
    frac_raise = [r for r in raises if cfg.has_guard(r, flag, False) and cfg.dominates(loop, r)]
    okf = bool(frac_raise) and any(any("'.'" in t or "','" in t for t, p in cfg.guard_texts(r))
                                   for r in frac_raise)
    # the fraction test must precede the clearing of the flag
    okf = okf and all(c.id not in cfg.reachable_from(cfg.nodes[[s for s, l in cfg.succ[loop.id] if l == 'iter'][0]],
                                                      avoid=[x for x in cfg.nodes if x.kind == 'test' and
                                                             ("'.'" in norm(x.ast) or "','" in norm(x.ast))])
                      for c in clears)
    ck.ob(R3, f"{conv.fid} :: fraction in a larger unit raises", okf,
          "a fractional value with the flag already cleared raises, and the test precedes the "
          "clearing" if okf else
          "the 'only the smallest unit may have a fractional part' check is missing or misplaced",
          conv, frac_raise[0].ast if frac_raise else conv.node)
    empty_raise = [r for r in raises if cfg.has_guard(r, flag, True) and not cfg.dominates(
        cfg.nodes[[s for s, l in cfg.succ[loop.id] if l == 'iter'][0]], r)]
    ck.ob(R3, f"{conv.fid} :: empty duration raises", bool(empty_raise),
          "the flag still set after the loop raises ('at least one element')" if empty_raise else
          "an input without any element does not raise", conv,
          empty_raise[0].ast if empty_raise else conv.node)
    repl = nodes_where(cfg, lambda n: any(call_name(c) == 'replace' and len(c.args) >= 2 and
                                          is_const(c.args[0], ',') and is_const(c.args[1], '.')
                                          for c in node_calls(n)))
    okr = bool(repl) and bool(floats) and all(f.id in cfg.reachable_from(r) for r in repl for f in floats)
    ck.ob(R3, f"{conv.fid} :: decimal comma", okr,
          "',' is replaced by '.' before float()" if okr else
          "the decimal comma is not converted before float()", conv,
          repl[0].ast if repl else conv.node)
    # ---- R19.3b the fraction test agrees with the separators the patterns admit
    seps = set()
    for spec in (trad, iso):
        for g_ in spec[4]:
            for op_, av_ in g_['number']:
                if op_ is OPS.MAX_REPEAT:
                    inner_ = list(av_[2])
                    if inner_ and inner_[0][0] is OPS.IN:
                        seps |= {chr(x[1]) for x in inner_[0][1] if x[0] is OPS.LITERAL}
    ck.need(R3, bool(seps), "no fraction separator class found in the number groups")
    body = loop.ast.body
    bad = []
    ncase = 0
    for sep in [None] + sorted(seps):
        for fl in (True, False):
            ncase += 1
            ck.abstract_cases += 1
            out = _frac_case(R3, body, vname, flag, sep, fl)
            want = 'raise' if (sep is not None and not fl) else 'float:ok'
            if out != want:
                bad.append(f"number with separator {sep!r}, {flag}={fl}: {out} (must be {want})")
    ck.ob(R3, f"{conv.fid} :: fraction test covers every separator of the pattern", not bad,
          f"evaluated on {ncase} (separator in {sorted(seps)} or none) x flag cases: a fraction "
          f"raises exactly when a smaller unit was present, and float() always receives a '.'"
          if not bad else "; ".join(bad), conv, (frac_raise[0].ast if frac_raise else conv.node))



def _rest_of_c19(ck, prog, mod, R4, R5, R6):
    # ---- R19.4 time_period
    with ck.section('R19.4'):
        tp = prog.func(f"{TU}:time_period")
        g = ck.cfg(tp.fid, 'M0')
        p = tp.node.args.args[0].arg
        # layout-independent decision: abstract run of the case split
        from sa.minieval import MiniEval
        tp_run_ok = None
        try:
            bad_ = []
            for val_, want_ in ((None, ('return', None)), (5, ('return', 5.0)), (0, ('return', 0.0)),
                                (-3, ('return', 0.0)), (2.5, ('return', 2.5)), (-0.5, ('return', 0.0)),
                                ('1m30s', ('return', ('CONVERTED', '1m30s'))),
                                # strings that happen to be Python float literals are still durations
                                ('1e3', ('return', ('CONVERTED', '1e3'))), ('-5', ('return', ('CONVERTED', '-5'))),
                                ('inf', ('return', ('CONVERTED', 'inf'))), ('12', ('return', ('CONVERTED', '12'))),
                                # the empty string is a malformed duration, not 'no period'
                                ('', ('return', ('CONVERTED', ''))), (' ', ('return', ('CONVERTED', ' '))),
                                ([], ('raise', 'TypeError')), ((), ('raise', 'TypeError')),
                                ([1], ('raise', 'TypeError')),
                                ((1, 2), ('raise', 'TypeError'))):
                res = MiniEval(R4, {p: val_, 'convert': lambda s_: ('CONVERTED', s_)}).run(tp.node.body)
                ck.abstract_cases += 1
                if res != want_ or (res[0] == 'return' and type(res[1]) is not type(want_[1])):
                    bad_.append(f"time_period({val_!r}) -> {res}, documented {want_}")
            tp_run_ok = not bad_
            ck.ob(R4, f"{tp.fid} :: abstract run", tp_run_ok,
                  "None -> None; int -> float; negative -> 0.0; str -> convert(str); other types -> TypeError "
                  "(17 representative arguments, the empty string among them)" if tp_run_ok else "; ".join(bad_[:3]), tp, tp.node)
        except Exception as err:
            ck.note(f"R19.4 abstract run not applicable: {err}")
        rets = return_nodes(g)
        r_none = [r for r in rets if g.has_guard(r, f'{p} is None', True) and
                  (r.ast.value is None or is_const(r.ast.value, None))]
        ck.ob(R4, f"{tp.fid} :: None", bool(r_none) or bool(tp_run_ok), "None stays None" if r_none else
              "`None` is not returned as None", tp, tp.node)
        to_float = nodes_where(g, lambda n: isinstance(n.ast, ast.Assign) and norm(n.ast.value) == f'float({p})'
                               and g.has_guard(n, f'isinstance({p}, int)', True))
        ck.ob(R4, f"{tp.fid} :: int", bool(to_float) or any(
              g.has_guard(r, f'isinstance({p}, (int, float))', True) for r in rets) or bool(tp_run_ok),
              "an int is converted to float and takes the float branch", tp, tp.node)
        r_float = [r for r in rets if g.has_guard(r, f'isinstance({p}, float)', True)
                   or g.has_guard(r, f'isinstance({p}, (int, float))', True)]
        okfl = bool(r_float) and all(
            isinstance(r.ast.value, ast.Call) and call_name(r.ast.value) == 'max'
            and sorted(norm(a) for a in r.ast.value.args) in (sorted(['0.0', p]), sorted(['0.0', f'float({p})']),
                                                              sorted(['0', p]))
            for r in r_float)
        ck.ob(R4, f"{tp.fid} :: float", okfl or bool(tp_run_ok),
              "a number is clamped with max(0.0, x): negative becomes 0" if okfl else
              f"the numeric branch returns {[norm(r.ast.value) for r in r_float]}, not max(0.0, x)",
              tp, r_float[0].ast if r_float else tp.node)
        r_str = [r for r in rets if g.has_guard(r, f'isinstance({p}, str)', True)]
        okst = bool(r_str) and all(isinstance(r.ast.value, ast.Call) and call_name(r.ast.value) == 'convert'
                                   and [norm(a) for a in r.ast.value.args] == [p] for r in r_str)
        ck.ob(R4, f"{tp.fid} :: str", okst or bool(tp_run_ok), "a string goes through convert()" if okst else
              "a string is not converted with convert(period)", tp, r_str[0].ast if r_str else tp.node)
        tr = nodes_where(g, lambda n: isinstance(n.ast, ast.Raise) and n.kinds == {'N:TypeError'},
                         kinds=('stmt',))
        fall = g.exit.id in g.reachable() and any(
            pn.kind != 'stmt' or not isinstance(pn.ast, ast.Return)
            for pn in [g.nodes[i] for i, _ in g.pred[g.exit.id]])
        ck.ob(R4, f"{tp.fid} :: other types", (bool(tr) and not fall) or bool(tp_run_ok),
              "any other type raises TypeError" if tr and not fall else
              "an unsupported type does not raise TypeError (falls through)", tp, tp.node)

    with ck.section('R19.5'):
        # ---- R19.5
        cv = prog.func(f"{TU}:convert")
        hs = handlers_in(cv)
        ok = bool(hs) and all(handler_reraises(cv, h) for h in hs)
        gcv = ck.cfg(cv.fid, 'M0')
        calls = nodes_calling(gcv, '_convert')
        rdcv = ck.rdefs(cv.fid, 'M0')

        def _is_conv(r):
            v = r.ast.value
            if isinstance(v, ast.Call) and call_name(v) == '_convert':
                return True
            if isinstance(v, ast.Name):
                vals_ = rdcv.value_exprs(r, v.id)
                return bool(vals_) and all(not isinstance(x, str) and isinstance(x, ast.Call)
                                           and call_name(x) == '_convert' for x in vals_)
            return False
        okc = bool(calls) and all(_is_conv(r) for r in return_nodes(gcv))
        ck.ob(R5, cv.fid, ok and okc,
              "convert() returns _convert()'s value and re-raises its ValueError" if ok and okc else
              "convert() swallows the error of _convert() or returns something else", cv, cv.node)

    with ck.section('R19.6'):
        # ---- R19.6 renderers
        for fname in ('timestr', 'timestr_approx'):
            fi = prog.func(f"{TU}:{fname}")
            gr = ck.cfg(fi.fid, 'M0')
            divs = []
            for n in sorted(gr.nodes, key=lambda n: (n.lineno or 0)):
                if n.kind == 'stmt' and isinstance(n.ast, ast.Assign) and isinstance(n.ast.value, ast.Call) \
                        and call_name(n.ast.value) == 'divmod' and isinstance(n.ast.targets[0], ast.Tuple):
                    try:
                        d = fold(prog, mod, n.ast.value.args[1])
                    except Unfoldable:
                        d = None
                    q, r = [norm(e) for e in n.ast.targets[0].elts]
                    divs.append((q, r, norm(n.ast.value.args[0]), d, n))
            seq = [d[3] for d in divs]
            ok = seq == [86400, 3600, 60]
            chain = ok and divs[1][2] == divs[0][1] and divs[2][2] == divs[1][1]
            ck.ob(R6, f"{fi.fid} :: divisors", ok and chain,
                  f"divmod divisors {seq}; each step divides the previous remainder" if ok and chain else
                  f"divmod divisors are {seq} (expected [86400, 3600, 60], each applied to the "
                  f"previous remainder)", fi, divs[0][4].ast if divs else fi.node)
            if not (ok and chain):
                continue
            want = {divs[0][0]: 'd', divs[1][0]: 'h', divs[2][0]: 'm', divs[2][1]: 's'}
            found = {}
            for n in own_nodes(fi.node):
                if isinstance(n, ast.JoinedStr) and len(n.values) >= 2 and \
                        isinstance(n.values[-1], ast.Constant) and isinstance(n.values[0], ast.FormattedValue):
                    suffix = n.values[-1].value
                    var = n.values[0].value
                    if isinstance(var, ast.Call) and call_name(var) == 'int' and var.args:
                        var = var.args[0]
                    if isinstance(var, ast.Name) and var.id in want:
                        found.setdefault(var.id, set()).add(suffix)
            okl = all(found.get(v) == {u} for v, u in want.items())
            ck.ob(R6, f"{fi.fid} :: unit letters", okl,
                  f"quotients/remainder are labelled {dict((v, sorted(s)) for v, s in found.items())}"
                  + ('' if okl else f"; expected {want}"), fi, fi.node)
            neg = nodes_where(gr, lambda n: isinstance(n.ast, ast.Raise) and
                              gr.has_guard(n, f'{fi.node.args.args[0].arg} < 0', True), kinds=('stmt',))
            ck.ob(R6, f"{fi.fid} :: negative refused", bool(neg),
                  "a negative number of seconds raises" if neg else
                  "negative input is not refused", fi, fi.node)


def _convert_run(ck, R7, prog, mod):
    """Layout-independent decision for utils.timeunits._convert: the function (and the module helpers it
    calls) is interpreted with the two compiled patterns replaced by stand-ins whose fullmatch() hands
    out a chosen tuple of groups, for every combination of element values."""
    import itertools
    from sa.minieval import MiniEval, Obj
    conv = prog.func(f"{TU}:_convert")
    p0 = conv.node.args.args[0].arg
    consts = {}
    for name in ('SEC_PER_MIN', 'SEC_PER_HOUR', 'SEC_PER_DAY'):
        b = prog.lookup(mod, name)
        ck.need(R7, b is not None and b[0] == 'value', f"constant {name} not found")
        consts[name] = fold(prog, mod, b[1])
    ck.need(R7, (consts['SEC_PER_MIN'], consts['SEC_PER_HOUR'], consts['SEC_PER_DAY']) == (60, 3600, 86400),
            f"unit constants are {consts} (decided by R19.1)")

    def resolve(text):
        if text.isidentifier():
            b = prog.lookup(mod, text)
            if b is not None and b[0] == 'func' and b[1].fid != conv.fid:
                return b[1].node
        return None

    def num(v):
        return None if v is None else float(v.replace(',', '.'))
    VALS = (None, '0', '2', '1.5', '0,5')
    YM = (None, '0', '3')
    scale = (86400, 3600, 60, 1)
    bad = {'trad': [], 'iso': [], 'nomatch': []}
    n = 0

    def run_case(kind, groups):
        def pattern(matches):
            def fullmatch(_s):
                return Obj('match', {'groups': lambda: tuple(groups), 'group': lambda i=0: groups[i - 1]}) \
                    if matches else None
            return Obj('pattern', {'fullmatch': fullmatch, 'match': fullmatch})
        from sa.minieval import ModuleGlobals
        glob = ModuleGlobals(prog, mod, dict(consts, _RE_DURATION=pattern(kind == 'trad'),
                                             _RE_ISO_DURATION=pattern(kind == 'iso')))
        return MiniEval(R7, {p0: 'TSTR'}, resolve, globals_=glob).run(conv.node.body)

    def expected(ym, dhms):
        present = [v for v in dhms if v is not None]
        allv = list(ym) + list(dhms)
        if all(v is None for v in allv):
            return 'raise'
        # smallest present unit = the last non-None element
        last = max(i for i, v in enumerate(allv) if v is not None)
        for i, v in enumerate(allv):
            if v is not None and ('.' in v or ',' in v) and i != last:
                return 'raise'
        if any(v is not None and num(v) != 0 for v in ym):
            return 'raise'
        return sum(num(v) * sc for v, sc in zip(dhms, scale) if v is not None)
    for dhms in itertools.product(VALS, repeat=4):
        out = run_case('trad', dhms)
        n += 1
        want = expected((), dhms)
        ok = (out[0] == 'raise' and 'ValueError' in str(out[1])) if want == 'raise' else \
            (out[0] == 'return' and isinstance(out[1], (int, float)) and abs(out[1] - want) < 1e-9)
        if not ok and len(bad['trad']) < 3:
            bad['trad'].append(f"d,h,m,s = {dhms}: {out}; documented {want}")
    for ym in itertools.product(YM, repeat=2):
        for dhms in itertools.product((None, '0', '2', '1.5'), repeat=4):
            out = run_case('iso', ym + dhms)
            n += 1
            want = expected(ym, dhms)
            ok = (out[0] == 'raise' and 'ValueError' in str(out[1])) if want == 'raise' else \
                (out[0] == 'return' and isinstance(out[1], (int, float)) and abs(out[1] - want) < 1e-9)
            if not ok and len(bad['iso']) < 3:
                bad['iso'].append(f"Y,M,D,h,m,s = {ym + dhms}: {out}; documented {want}")
    out = run_case('none', ())
    n += 1
    if not (out[0] == 'raise' and 'ValueError' in str(out[1])):
        bad['nomatch'].append(f"a string neither pattern matches: {out}")
    ck.abstract_cases += n
    ck.backing['_convert'] = not any(bad.values())
    for key, label in (('trad', 'traditional format'), ('iso', 'ISO 8601 format'), ('nomatch', 'no match')):
        ck.ob(R7, f"{conv.fid} :: abstract run :: {label}", not bad[key],
              f"as documented on all element combinations ({n} cases in total)" if not bad[key]
              else '; '.join(bad[key]), conv, conv.node)
