"""C02 -- Output events reproduce the source block's output history exactly."""
from __future__ import annotations

import ast

from sa.loader import AnalysisError, recv, norm, norm1, walk_shallow, own_nodes, call_name, is_super_call
from sa.dataflow import node_defs
from sa.typestate import check_language
from sa.rulekit import (nodes_where, node_calls, node_roots, nodes_calling, return_nodes, own,
                        nodes_writing_attr, must_pass, is_const, written_value, expr_is, kw,
                        superchain)
from sa.report import path_witness

UNDECIDED = [
    "enumeration of concrete value sequences (1/True/1.0, None, tuples ...) -- the chaining "
    "previous(k+1) == value(k) follows from R02.1 together with the single-writer rule R01.6; it "
    "is not enumerated",
    "behaviour of user-supplied filters and destination handlers",
]

EMITTERS = ('block:SBlock.set_output', 'block:CBlock.eval_block')
SCHEDULERS = ('create_task', 'ensure_future', 'call_soon', 'call_soon_threadsafe', 'call_later',
              'call_at', 'run_in_executor', 'run_coroutine_threadsafe', 'to_thread')


def run(ck):
    ck.explanation = (
        "SBlock.set_output / CBlock.eval_block / Event.send (edzed/block.py): every output event "
        "is sent with (self, trigger='output', previous=p, value=v) where p is read from _output "
        "before the write and v is the value written; the write is skipped only for equal values; "
        "the order write, enqueue, on_output loop, on_every_output loop is checked as a path "
        "language over the CFG; all four functions on the delivery path are plain (non-async) "
        "functions without any scheduling call, so delivery finishes before the assignment "
        "returns; the event tuples keep the configured order and have a single writer.")
    ck.undecided = UNDECIDED
    prog = ck.prog

    R1 = ck.rule('R02.1', "payload: every output event is sent as (self, trigger='output', "
                 "previous=<output before the write>, value=<value written>)", 'M0', 3)
    R2 = ck.rule('R02.2', "exactly the changes: the write is skipped only under an equality test "
                 "of previous and value; set_output follows (W Q Lo (O Lo)*)? (Le (E Le)*)? and "
                 "returns early only for an unchanged value without on_every_output events; "
                 "eval_block follows (W Lo (O Lo)*)?", 'M0', 5)
    R3 = ck.rule('R02.3', "synchronous delivery: set_output, eval_block, Event.send and "
                 "SBlock.event are plain functions without await or any scheduling call", 'M0', 4)
    R4 = ck.rule('R02.4', "delivery: source item set before the filters; one dest.event per "
                 "accepted send with the data that left the filters; none on rejection", 'M0', 2)
    R5 = ck.rule('R02.5', "order as configured: _to_tuple keeps the sequence order (no set / "
                 "sorted / reversed); the emitters iterate the stored tuples directly", 'M0', 4)
    R6 = ck.rule('R02.6', "the event tuples have the documented writers only", 'M0', 3)
    R7 = ck.rule('R02.7', "every override of set_output calls super().set_output(value) exactly "
                 "once with its own argument, before its extra effect", 'M0', 1)

    for fid in EMITTERS:
      with ck.section('R02.1' if fid.endswith('set_output') else 'R02.1e'):
        if True:
            fi = prog.func(fid)
            if fid.endswith('set_output'):
                # layout-independent decision first: abstract run on the complete case grid
                from rules.shared import set_output_run
                run_ = set_output_run(ck)
                if run_['applicable']:
                    bad_ = run_['bad']
                    for trig in ('on_output', 'on_every_output'):
                        msgs = [m for m in bad_['payload'] if f"{trig}[" in m.split(': ', 1)[-1][:30]]
                        ck.ob(R1, f"{fid} :: abstract run :: payload of {trig} events", not msgs,
                              "every event is sent as (self, trigger='output', previous=<old>, value=<new>) "
                              f"on all {run_['cases']} cases" if not msgs else '; '.join(msgs[:3]), fi, fi.node)
                    for aspect, key, good in (
                            ('exactly the changes', 'changes', "a value is stored and queued iff it compares unequal "
                             "to the previous one; on_output events only then; on_every_output events always"),
                            ('order', 'order', "on_output events before on_every_output events, each group in the "
                             "configured order; a failing delivery is not swallowed"),
                            ('stored and queued before sending', 'queued first', "the write and the enqueue precede "
                             "the first event"),
                            ('UNDEF refused', 'undef', "UNDEF raises ValueError without any effect")):
                        ck.ob(R2, f"{fid} :: abstract run :: {aspect}", not bad_[key],
                              good if not bad_[key] else '; '.join(bad_[key][:3]), fi, fi.node)
                    if any(bad_.values()):
                        continue        # the run found the violation; the shape rules would only repeat it
                    from rules.shared import shapes_backed_by_run
                    shapes_backed_by_run(ck, lambda: _emitter_shape(ck, prog, fid, fi, R1, R2), 'SBlock.set_output')
                    continue
                ck.note(f"abstract run of set_output not applicable: {run_['why']}")
            _emitter_shape(ck, prog, fid, fi, R1, R2)

    with ck.section('R02.3'):
        # ------------------------------------------------------------------ R02.3
        for fid in EMITTERS + ('block:Event.send', 'block:SBlock.event'):
            fi = prog.func(fid)
            bad = []
            if fi.is_async:
                bad.append('async def')
            for x in own_nodes(fi.node):
                if isinstance(x, (ast.Await, ast.Yield, ast.YieldFrom)):
                    bad.append(norm1(x))
                if isinstance(x, ast.Call) and call_name(x) in SCHEDULERS:
                    bad.append(norm1(x))
            ck.ob(R3, fid, not bad, "plain synchronous function without scheduling calls" if not bad
                  else f"delivery is deferred or asynchronous: {bad}", fi, fi.node)

    with ck.section('R02.4'):
        # ------------------------------------------------------------------ R02.4
        from rules.shared import event_send_rules
        event_send_rules(ck, R4, ('source', 'pipeline', 'veto', 'delivery'), lambda: _event_send_language(ck, R4))

    with ck.section('R02.5'):
        # ------------------------------------------------------------------ R02.5
        tt = prog.func('block:_to_tuple')
        g = ck.cfg(tt.fid, 'M0')
        p0 = tt.node.args.args[0].arg
        bad = [norm1(x) for x in own_nodes(tt.node) if isinstance(x, ast.Call) and
               call_name(x) in ('set', 'frozenset', 'sorted', 'reversed', 'dict', 'fromkeys')]
        bad += [norm1(x) for x in own_nodes(tt.node) if isinstance(x, ast.Subscript) and
                isinstance(x.slice, ast.Slice)]
        rd = ck.rdefs(tt.fid, 'M0')
        rets = [r for r in return_nodes(g) if r.ast.value is not None]
        okv = True
        for r in rets:
            v = r.ast.value
            if isinstance(v, ast.Tuple) and not v.elts:
                continue
            if not isinstance(v, ast.Name):
                okv = False
                continue
            def order_kept(val, depth=0):
                # the parameter itself, tuple(p) / list(p) / (p,), an alias of those, or a conditional
                # expression choosing between them
                if val == 'param':
                    return True
                if isinstance(val, str) or depth > 4:
                    return False
                if norm(val) in (p0, f'tuple({p0})', f'({p0},)', f'list({p0})', '()'):
                    return True
                if isinstance(val, ast.IfExp):
                    return order_kept(val.body, depth + 1) and order_kept(val.orelse, depth + 1)
                return False
            for val in rd.value_exprs(r, v.id):
                if not order_kept(val):
                    okv = False
        ck.ob(R5, tt.fid, not bad and okv and bool(rets),
              "returns the items in the given order: args, tuple(args) or (args,)" if not bad and okv
              else f"_to_tuple may reorder or de-duplicate the items ({bad})", tt, tt.node)
        for fid in ('block:event_tuple', 'block:efilter_tuple'):
            fi = prog.func(fid)
            rets = [n for n in own_nodes(fi.node) if isinstance(n, ast.Return)]
            ok = len(rets) == 1 and isinstance(rets[0].value, ast.Call) and \
                call_name(rets[0].value) == '_to_tuple' and \
                norm(rets[0].value.args[0]) == fi.node.args.args[0].arg
            ck.ob(R5, fid, ok, "delegates to _to_tuple unchanged" if ok else
                  f"{fid} does not return _to_tuple(<argument>, validator)", fi, fi.node)
        from rules.shared import argument_not_consumed_before_tuple
        argument_not_consumed_before_tuple(ck, R5)
        # loops iterate the stored tuples directly
        n_loops = 0
        from rules.shared import set_output_run
        run_ = set_output_run(ck)
        for fid in EMITTERS:
            if fid.endswith('set_output') and run_['applicable']:
                n_loops += 2        # order and multiplicity of set_output's sends: decided by the abstract run
                continue
            g = ck.cfg(fid, 'M0')
            for s in nodes_calling(g, 'send'):
                c = node_calls(s, 'send')[0]
                loops = [n for n in g.nodes if n.kind == 'for' and norm(n.ast.target) == recv(c)]
                n_loops += len(loops)
                ok = bool(loops) and all(norm(l.ast.iter) in ('self._output_events', 'self._every_output_events')
                                         for l in loops)
                if not ok:
                    ck.ob(R5, f"{fid} :: loop {norm1(loops[0].ast) if loops else '?'}", False,
                          "the events are not sent by a plain loop over the stored tuple (order or "
                          "multiplicity may change)", prog.func(fid), s.ast)
        ck.ob(R5, "emitter loops", n_loops >= 3, f"{n_loops} send loops iterate the stored tuples "
              "directly", None, 'edzed/block.py:1')

    with ck.section('R02.6'):
        # ------------------------------------------------------------------ R02.6
        own(ck, R6, '_output_events', {
            'block:Block.__init__': 'event_tuple(on_output)',
            'blocklib.sblocks2:InitAsync.init_regular': "documented suppression: 'no output events "
            "are generated' for the fallback initialisation (docs/sblocks1.rst, InitAsync)"})
        own(ck, R6, '_every_output_events', {'block:SBlock.__init__': 'event_tuple(on_every_output)'})
        bi = prog.func('block:Block.__init__')
        g = ck.cfg(bi.fid, 'M0')
        ws = nodes_writing_attr(g, '_output_events')
        ok = len(ws) == 1 and norm(written_value(ws[0], '_output_events')) == 'event_tuple(on_output)'
        si = prog.func('block:SBlock.__init__')
        g2 = ck.cfg(si.fid, 'M0')
        ws2 = nodes_writing_attr(g2, '_every_output_events')
        ok = ok and len(ws2) == 1 and \
            norm(written_value(ws2[0], '_every_output_events')) == 'event_tuple(on_every_output)'
        ck.ob(R6, "constructors store the configured events", ok,
              "on_output / on_every_output are stored through event_tuple()" if ok else
              "the configured events are not stored as given", bi, ws[0].ast if ws else bi.node)

    with ck.section('R02.7'):
        # ------------------------------------------------------------------ R02.7
        n = 0
        for ci in prog.pkg_classes():
            m = ci.methods.get('set_output')
            if m is None or ci.qual == 'block:SBlock':
                continue
            n += 1
            g = ck.cfg(m.fid, 'M0')
            sup = nodes_where(g, lambda nd: any(is_super_call(c, 'set_output') for c in node_calls(nd)))
            param = m.node.args.args[1].arg if len(m.node.args.args) > 1 else None
            ok = len(sup) == 1 and must_pass(g, g.entry, sup, [g.exit]) is None
            if ok:
                c = [c for c in node_calls(sup[0]) if is_super_call(c, 'set_output')][0]
                ok = [norm(a) for a in c.args] == [param] and not c.keywords
                # nothing effectful before it
                before = [x for x in g.nodes if x.kind == 'stmt' and x.id != sup[0].id and
                          g.dominates(x, sup[0]) and not isinstance(x.ast, (ast.Assert, ast.Expr))]
                ok = ok and not before
            ck.ob(R7, m.fid, ok, "calls super().set_output(value) exactly once, first, with its own "
                  "argument" if ok else "an override of set_output does not forward the value to the "
                  "setter chain exactly once before its own effect", m, m.node)
        ck.need(R7, n >= 1, "no set_output override found (AddonAsyncInit.set_output expected)")


def _loop_body(g, loop):
    """Node ids of the loop body (reachable from the 'iter' successor without passing the head)."""
    body = [v for v, lab in g.succ[loop.id] if lab == 'iter']
    if not body:
        return set()
    return g.reachable_from(g.nodes[body[0]], avoid=[loop])


def _event_send_language(ck, rule):
    prog = ck.prog
    es = prog.func('block:Event.send')
    cfg = ck.cfg(es.fid, 'M0')
    loops = [n for n in cfg.nodes if n.kind == 'for' and norm(n.ast.iter) == 'self._filters']
    ck.need(rule, len(loops) == 1, "Event.send: filter loop not recognised")
    fvar = norm(loops[0].ast.target)
    fcalls = nodes_where(cfg, lambda n: any(isinstance(c.func, ast.Name) and c.func.id == fvar
                                            for c in node_calls(n)))
    deliveries = nodes_calling(cfg, 'event')
    srcw = nodes_where(cfg, lambda n: isinstance(n.ast, ast.Assign) and
                       norm(n.ast.targets[0]) == "data['source']")
    rt = [r for r in return_nodes(cfg) if is_const(r.ast.value, True)]
    rf = [r for r in return_nodes(cfg) if is_const(r.ast.value, False)]

    def events(n):
        ev = []
        if n in srcw:
            ev.append('S')
        if n in fcalls:
            ev.append('F')
        if n in deliveries:
            ev.append('D')
        if n in rt:
            ev.append('Rt')
        if n in rf:
            ev.append('Rf')
        if n.kind == 'stmt' and isinstance(n.ast, ast.Return) and n not in rt and n not in rf:
            ev.append('Rx')
        return ev
    try:
        ok, wit, st = check_language(cfg, "S F* ( D Rt | Rf )", events, [cfg.exit])
    except Exception as err:
        ck.ob(rule, f"{es.fid} :: path language", False, f"unexpected return value in send(): {err}",
              es, es.node)
        return
    ck.product_states += st['product_states']
    ck.ob(rule, f"{es.fid} :: path language S F* (D Rt | Rf)", ok,
          "source item, filters in order, then one delivery and True, or False without delivery"
          if ok else f"a path has the step word {' '.join(wit[1])}", es, es.node,
          witness=path_witness(cfg, wit[0]) if wit else None)
    if fcalls and isinstance(fcalls[0].ast, ast.Assign):
        rv = norm(fcalls[0].ast.targets[0])
        okv = bool(rf) and all(cfg.has_guard(r, f'isinstance({rv}, MutableMapping)', False) and
                               cfg.has_guard(r, rv, False) for r in rf)
        ck.ob(rule, f"{es.fid} :: veto only for a non-mapping false result", okv,
              "an (even empty) mapping result is data for the destination, never a veto" if okv else
              "a filter result is tested for truthiness before it is recognised as a mapping: an "
              "empty mapping suppresses the delivery", es, rf[0].ast if rf else es.node)
    okd = False
    if deliveries:
        dc = node_calls(deliveries[0], 'event')[0]
        okd = [norm(a) for a in dc.args] == ['self._etype'] and len(dc.keywords) == 1 and \
            dc.keywords[0].arg is None and norm(dc.keywords[0].value) == 'data' and \
            recv(dc) in ('dest', 'self._dest')
        src = (es.node.args.posonlyargs + es.node.args.args)[1].arg
        okd = okd and bool(srcw) and all(norm(s.ast.value) == f"{src}.name" for s in srcw)
    ck.ob(rule, f"{es.fid} :: delivered data", okd,
          "dest.event(self._etype, **data) with data['source'] = <sender>.name" if okd else
          "the destination does not receive the event type and the filtered data with the "
          "sender's name", es, deliveries[0].ast if deliveries else es.node)

def _emitter_shape(ck, prog, fid, fi, R1, R2):
    """Shape rules R02.1 / R02.2 for one emitter (SBlock.set_output, CBlock.eval_block)."""
    g = ck.cfg(fid, 'M0')
    rd = ck.rdefs(fid, 'M0')
    ws = nodes_writing_attr(g, '_output')
    ck.need(R1, len(ws) == 1, f"{fid}: expected exactly one write of _output")
    w = ws[0]
    written = written_value(w, '_output')
    sends = nodes_calling(g, 'send')
    ck.need(R1, sends, f"{fid}: no event.send call found")
    for s in sends:
        c = node_calls(s, 'send')[0]
        loops = [n for n in g.nodes if n.kind == 'for' and g.dominates(n, s)
                 and norm(n.ast.target) == recv(c)]
        problems = []
        if not loops:
            problems.append("not inside a loop over the event tuple")
        if [norm(a) for a in c.args] != ['self']:
            problems.append(f"positional arguments {[norm(a) for a in c.args]} (must be self)")
        kws = {k.arg: k.value for k in c.keywords}
        if set(kws) != {'trigger', 'previous', 'value'}:
            problems.append(f"keywords {sorted(str(k) for k in kws)} (must be trigger, previous, value)")
        else:
            if not is_const(kws['trigger'], 'output'):
                problems.append(f"trigger={norm(kws['trigger'])}")
            pv = kws['previous']
            pdefs = rd.defs_at(s, pv.id) if isinstance(pv, ast.Name) else []
            okp = bool(pdefs) and all(
                isinstance(d.ast, ast.Assign) and norm(d.ast.value) == 'self._output'
                and g.dominates(d, w) and d.id not in g.reachable_from(w) for d in pdefs)
            if not okp:
                problems.append("`previous` is not the value of self._output read before the "
                                "write")
            vv = kws['value']
            if not (norm(vv) == norm(written) or expr_is(ck, fid, 'M0', s, vv, norm(written))):
                problems.append(f"value={norm(vv)} is not the value written ({norm(written)})")
        ck.ob(R1, f"{fid} :: send in loop over {norm(loops[0].ast.iter) if loops else '?'}",
              not problems, "event.send(self, trigger='output', previous=<old>, value=<new>)"
              if not problems else '; '.join(problems), fi, s.ast)

    # ---- R02.2
    pname = None
    for d in nodes_where(g, lambda n: isinstance(n.ast, ast.Assign) and
                         norm(n.ast.value) == 'self._output'):
        pname = norm(d.ast.targets[0])
    vname = norm(written)
    eq_true = lambda n: g.has_guard(n, f'{pname} == {vname}', True) or \
        g.has_guard(n, f'{vname} == {pname}', True)
    eq_false = lambda n: g.has_guard(n, f'{pname} == {vname}', False) or \
        g.has_guard(n, f'{vname} == {pname}', False)
    ok = pname is not None and eq_false(w)
    ck.ob(R2, f"{fid} :: write only for unequal values", bool(ok),
          f"the write is guarded by `{pname} == {vname}` being false (equality, not identity)"
          if ok else "the write of _output is not guarded by an equality comparison of the "
          "previous and the new value", fi, w.ast)
    # ... and skipped ONLY for equal values: a normal exit that avoids the write lies behind
    # the true outcome of the equality test (an identity short-cut, `a is b or a == b`, drops
    # the change nan -> nan of one and the same object, which compares unequal)
    if pname is not None:
        from sa.cfg import canon_fact, decompose
        wants = {canon_fact(ast.parse(t_, mode='eval').body, True)
                 for t_ in (f'{pname} == {vname}', f'{vname} == {pname}')} | \
                {canon_fact(ast.parse(t_, mode='eval').body, False)
                 for t_ in (f'{pname} != {vname}', f'{vname} != {pname}')}
        eqT = [n for n in g.nodes if n.kind == 'branch' and any(
            canon_fact(e_, p_) in wants for e_, p_ in decompose(n.test.ast, n.polarity))]
        witq = g.path_avoiding(g.entry, [g.exit], avoid=[w] + eqT)
        ck.ob(R2, f"{fid} :: no change only for equal values", witq is None and bool(eqT),
              "every normal exit that skips the write lies behind `previous == value` being true"
              if witq is None and eqT else
              "the write (and with it the output event) can be skipped although the previous "
              "and the new value compare unequal (e.g. an identity short-cut)", fi, w.ast,
              witness=path_witness(g, witq))
    lo = [n for n in g.nodes if n.kind == 'for' and norm(n.ast.iter) == 'self._output_events']
    le = [n for n in g.nodes if n.kind == 'for' and norm(n.ast.iter) == 'self._every_output_events']
    enq = nodes_calling(g, 'put_nowait')

    def events(n):
        ev = []
        if n is w:
            ev.append('W')
        if n in enq:
            ev.append('Q')
        if n in lo:
            ev.append('Lo')
        if n in le:
            ev.append('Le')
        if n in sends:
            inside_lo = any(g.dominates(l, n) and n.id in _loop_body(g, l) for l in lo)
            inside_le = any(g.dominates(l, n) and n.id in _loop_body(g, l) for l in le)
            ev.append('O' if inside_lo and not inside_le else ('E' if inside_le else 'X'))
        return ev
    spec = "( W Q Lo ( O Lo )* )? ( Le ( E Le )* )?" if fid.endswith('set_output') \
        else "( W Lo ( O Lo )* )?"
    try:
        ok, wit, st = check_language(g, spec, events, [g.exit])
    except Exception as err:      # a symbol outside the alphabet (X, Q in eval_block ...)
        ok, wit, st = False, None, {'product_states': 0}
        ck.ob(R2, f"{fid} :: path language", False,
              f"an output event is sent outside the two event loops, or an unexpected step "
              f"occurs ({err})", fi, fi.node)
    else:
        ck.product_states += st['product_states']
        ck.ob(R2, f"{fid} :: path language {spec}", ok,
              "write, enqueue, on_output events, then on_every_output events -- in this order "
              "on every path" if ok else
              f"a path has the step word {' '.join(wit[1])}, not in {spec}", fi, fi.node,
              witness=path_witness(g, wit[0]) if wit else None)
    if fid.endswith('set_output'):
        early = [r for r in return_nodes(g)]
        ok = all(eq_true(r) and g.has_guard(r, 'self._every_output_events', False) for r in early)
        ck.ob(R2, f"{fid} :: early return", ok,
              "an early return happens only for an unchanged value with no on_every_output "
              "events configured" if ok else
              "set_output can return before sending events although the value changed or "
              "on_every_output events exist", fi, early[0].ast if early else fi.node)
        # the on_every_output loop is reached on every other normal path
        p = g.path_avoiding(g.entry, [g.exit], avoid=le + early)
        ck.ob(R2, f"{fid} :: on_every_output always", p is None and bool(le),
              "every assignment that does not return early runs the on_every_output loop"
              if p is None and le else "a path skips the on_every_output events", fi,
              le[0].ast if le else fi.node, witness=path_witness(g, p))

